"""Memory-cache family (C05, C13, C14, C17, C18): script generators, runners, oracles."""
import itertools, os, random, tempfile
from . import common as C

ALGOS = ["fifo", "lru", "sieve", "s3fifo", "lfu"]
MEMTRACE = os.path.join(C.BIN, "memtrace")
DRIVER = os.path.join(C.OCAML, "mem_driver")


# ------------------------------------------------------------------ generation

def gen_cfg(rng, algo=None, single=False, mode="generic", hasher=None):
    algo = algo or rng.choice(ALGOS)
    cap = rng.choice([0, 1, 2, 3, 3, 4, 4, 5, 6, 8, 10, 12])
    shards = 1 if single else rng.choice([1, 1, 2, 3, 4])
    univ = rng.choice([3, 4, 6, 8])
    kind = hasher or rng.choice(["id", "id", "id", "half", "const", "same"])
    hdiv, hmul = {"id": (1, 1), "half": (2, 1), "const": (1000, 1), "same": (1, shards)}[kind]
    cfg = dict(algo=algo, cap=cap, shards=shards, univ=univ, hdiv=hdiv, hmul=hmul, pipe=rng.choice([0, 1, 1]),
               mode=mode)
    if algo == "lru":
        cfg["hp"] = rng.choice([0.0, 0.3, 0.5, 0.75, 0.9, 1.0])
    if algo == "s3fifo":
        cfg["small"] = rng.choice([0.1, 0.25, 0.5, 0.6])
        cfg["ghost"] = rng.choice([0.0, 0.5, 1.0, 2.0])
        cfg["thr"] = rng.choice([0, 1, 1, 2, 3])
    if algo == "lfu":
        cfg["window"] = rng.choice([0.1, 0.2, 0.34])
        cfg["protected"] = rng.choice([0.4, 0.5, 0.6])
        cfg["eps"] = rng.choice([0.5, 0.9, 0.3])       # 6 / 4 / 10 buckets: collisions and halving are reached
        cfg["conf"] = rng.choice([0.5, 0.9])            # 1 / 3 rows
    return cfg


def cfg_line(cfg):
    return "cfg " + " ".join(f"{k}={v}" for k, v in cfg.items())


def gen_ops(rng, cfg, n, weights=None):
    """Structured, mostly valid operation sequence.  Every insert carries a unique value (= version)."""
    cap, univ, algo = cfg["cap"], cfg["univ"], cfg["algo"]
    ops, live, nexth, nextv = [], [], [1], [1]
    W = weights or dict(ins=40, gethold=12, getdrop=8, touch=6, drop=15, clone=3, remove=6, clear=2, resize=3,
                        evict_all=2, flush=1, contains=2)
    names, ws = list(W.keys()), list(W.values())

    def newh():
        h = nexth[0]; nexth[0] += 1; return h

    for _ in range(n):
        o = rng.choices(names, ws)[0]
        k = rng.randrange(univ)
        if o == "ins":
            w = rng.choice([0, 1, 1, 1, 1, 2, 2, 3, max(cap - 1, 0), cap, cap + 1, cap + 2])
            low = 1 if (rng.random() < 0.25) else 0
            ph = 1 if rng.random() < 0.08 else 0
            h = newh()
            ops.append(f"ins k={k} v={nextv[0]} w={w} low={low} ph={ph} h={h}")
            nextv[0] += 1
            if rng.random() < 0.3:
                live.append(h)
            else:
                ops.append(f"drop h={h}")
        elif o == "gethold":
            h = newh(); ops.append(f"{rng.choice(['get', 'get', 'gof'])} k={k} h={h}"); live.append(h)
        elif o == "getdrop":
            h = newh(); ops.append(f"get k={k} h={h}"); ops.append(f"drop h={h}")
        elif o == "touch":
            ops.append(f"touch k={k} h={newh()}")
        elif o == "drop":
            if live:
                h = live.pop(rng.randrange(len(live))); ops.append(f"drop h={h}")
        elif o == "clone":
            if live:
                h2 = newh(); ops.append(f"clone h={rng.choice(live)} h2={h2}"); live.append(h2)
        elif o == "remove":
            h = newh(); ops.append(f"remove k={k} h={h}")
            if rng.random() < 0.3:
                live.append(h)
            else:
                ops.append(f"drop h={h}")
        elif o == "clear":
            ops.append("clear")
        elif o == "resize":
            ops.append(f"resize cap={rng.choice([0, 1, 2, 3, 4, 6, 8, 12])}")
        elif o == "evict_all":
            ops.append("evict_all")
        elif o == "flush":
            ops.append("flush")
        elif o == "contains":
            ops.append(f"contains k={k}")
    if live and rng.random() < 0.35:
        # the application drops its last cache handle while it still holds entry handles
        ops.append("dropcache2")
        return ops
    for h in live:
        ops.append(f"drop h={h}")
    ops.append("dropcache")
    return ops


def gen_hot_ops(rng, cfg, n):
    """skewed trace: one or two hot keys looked up again and again (frequency counters reach and pass their caps, sketch
    counters saturate, the SIEVE hand passes the same record many times), a stream of cold keys forcing eviction passes"""
    univ = cfg["univ"]
    hot = rng.sample(range(univ), rng.choice([1, 1, 2]))
    # unit weights, or mixed ones (a heavy entry moving between segments displaces several light ones at once)
    wts = rng.choice([[1], [1], [1, 1, 2, 3]])
    ops, nexth, nextv, cold = [], 1, 1, 0
    for k in hot:
        ops += [f"ins k={k} v={nextv} w={rng.choice(wts)} low=0 ph=0 h={nexth}", f"drop h={nexth}"]; nexth += 1; nextv += 1
    for _ in range(n):
        r = rng.random()
        if r < 0.45:
            k = rng.choice(hot)
            for _ in range(rng.choice([1, 1, 2, 5, 8])):
                ops += [f"get k={k} h={nexth}", f"drop h={nexth}"]; nexth += 1
        elif r < 0.5:
            k = rng.choice(hot)
            ops += [f"ins k={k} v={nextv} w={rng.choice(wts)} low=0 ph=0 h={nexth}", f"drop h={nexth}"]; nexth += 1; nextv += 1
        else:
            cold = (cold + 1) % univ
            while cold in hot:
                cold = (cold + 1) % univ
            ops += [f"ins k={cold} v={nextv} w={rng.choice(wts)} low=0 ph=0 h={nexth}", f"drop h={nexth}"]; nexth += 1; nextv += 1
    ops.append("dropcache")
    return ops


def gen_lru_pin_ops(rng, cfg, n):
    """LRU with a high-priority pool: entries are looked up and held (pinned: their weight leaves the pool), the pool fills
    up again, the handles are released in some order (the weight comes back, the pool overflows into the low-priority
    list), and a stream of inserts then shows who is evicted first"""
    univ = cfg["univ"]
    ops, nexth, nextv, held = [], 1, 1, []
    for _ in range(n):
        r = rng.random()
        if r < 0.45:
            k = rng.randrange(univ)
            ops += [f"ins k={k} v={nextv} w={rng.choice([1, 1, 2])} low={1 if rng.random() < 0.15 else 0} ph=0 h={nexth}",
                    f"drop h={nexth}"]; nexth += 1; nextv += 1
        elif r < 0.7:
            ops.append(f"get k={rng.randrange(univ)} h={nexth}"); held.append(nexth); nexth += 1
        elif held:
            h = held.pop(rng.randrange(len(held))); ops.append(f"drop h={h}")
    for h in held:
        ops.append(f"drop h={h}")
    for _ in range(rng.choice([3, 6])):
        ops += [f"ins k={rng.randrange(univ)} v={nextv} w=1 low=0 ph=0 h={nexth}", f"drop h={nexth}"]; nexth += 1; nextv += 1
    ops.append("dropcache")
    return ops


def script_text(cfg, ops):
    return cfg_line(cfg) + "\n" + "\n".join(ops) + "\n"


def exhaustive_scripts(algo, maxlen, cap=2):
    """All sequences of length <= maxlen over a 10-letter alphabet, single shard, 2 keys."""
    cfg = dict(algo=algo, cap=cap, shards=1, univ=2, hdiv=1, hmul=1, pipe=1, mode="generic")
    if algo == "lru":
        cfg["hp"] = 0.5
    alpha = ["ins0w1", "ins1w1", "ins0w2", "gethold0", "touch0", "dropold", "remove0", "clear", "resize1", "evict_all"]
    out = []
    for n in range(1, maxlen + 1):
        for seq in itertools.product(alpha, repeat=n):
            ops, live, h, v = [], [], 1, 1
            for a in seq:
                if a.startswith("ins"):
                    k, w = int(a[3]), int(a[5])
                    ops.append(f"ins k={k} v={v} w={w} low=0 ph=0 h={h}"); ops.append(f"drop h={h}"); h += 1; v += 1
                elif a == "gethold0":
                    ops.append(f"get k=0 h={h}"); live.append(h); h += 1
                elif a == "touch0":
                    ops.append(f"touch k=0 h={h}"); h += 1
                elif a == "dropold":
                    if live:
                        ops.append(f"drop h={live.pop(0)}")
                elif a == "remove0":
                    ops.append(f"remove k=0 h={h}"); ops.append(f"drop h={h}"); h += 1
                elif a == "clear":
                    ops.append("clear")
                elif a == "resize1":
                    ops.append("resize cap=1")
                elif a == "evict_all":
                    ops.append("evict_all")
            # a final insert shows over-eviction / leaked pins caused by what came before
            ops.append(f"ins k=1 v={v} w=1 low=0 ph=0 h={h}"); ops.append(f"drop h={h}")
            for x in live:
                ops.append(f"drop h={x}")
            ops.append("dropcache")
            out.append(script_text(cfg, ops))
    return out


# ------------------------------------------------------------------ running

def split_traces(text):
    """-> list of (cfgline, [lines])"""
    res, cur = [], None
    for line in text.split("\n"):
        if not line.strip():
            continue
        if line.startswith("cfg "):
            cur = (line, []); res.append(cur)
        elif cur is not None:
            cur[1].append(line)
    return res


def run_batch(scripts, mode=None, bugs=None):
    """Runs scripts on the implementation and the model. Returns list of (impl_lines, model_lines)."""
    if not scripts:
        return []
    with tempfile.TemporaryDirectory(prefix="memv") as td:
        sp = os.path.join(td, "s.txt")
        open(sp, "w").write("".join(scripts))
        rc, out = C.sh([MEMTRACE, sp], timeout=600)
        if rc != 0:
            raise C.Broken("memtrace failed", out[-2000:])
        impl = split_traces(out)
        # model input: the implementation's trace (the model reads op + victims from it)
        mtxt = []
        for cfgl, lines in impl:
            if mode:
                cfgl = " ".join(t for t in cfgl.split() if not t.startswith("mode=")) + f" mode={mode}"
            if bugs:
                cfgl += "".join(f" {b}=1" for b in bugs)
            mtxt.append(cfgl + "\n" + "\n".join(lines) + "\n")
        rc, mout = C.sh([DRIVER], inp="".join(mtxt), timeout=600)
        if rc != 0:
            raise C.Broken("mem_driver failed", mout[-2000:])
        model = split_traces(mout)
        if len(impl) != len(scripts) or len(model) != len(scripts):
            raise C.Broken(f"trace count mismatch: {len(scripts)} scripts, {len(impl)} impl, {len(model)} model")
        return [(i[1], m[1], i[0]) for i, m in zip(impl, model)]


def run_many(scripts, mode=None, bugs=None, chunk=40):
    chunks = [scripts[i:i + chunk] for i in range(0, len(scripts), chunk)]
    res = C.pmap(lambda ch: run_batch(ch, mode, bugs), chunks)
    return [x for r in res for x in r]


def parse_obs(line):
    """'op | k=v ...' -> (optext, opkv, obs dict) ; obs None for PANIC/INADMISSIBLE/DEAD"""
    op, _, obs = line.partition("|")
    op, obs = op.strip(), obs.strip()
    opkv = dict(t.split("=", 1) for t in op.split()[1:] if "=" in t)
    if obs in ("PANIC", "INADMISSIBLE", "DEAD"):
        return op, opkv, obs
    d = {}
    for t in obs.split():
        a, _, b = t.partition("=")
        d[a] = b
    return op, opkv, d


def first_mismatch(impl, model, fields=None):
    """index of the first line whose observations differ (after canonicalisation), or None"""
    for n, (a, b) in enumerate(zip(impl, model)):
        oa, _, da = parse_obs(a)
        ob, _, db = parse_obs(b)
        if isinstance(da, str) or isinstance(db, str):
            if da != db:
                return n
            continue
        if fields:
            if any(da.get(f) != db.get(f) for f in fields):
                return n
        elif da != db:
            return n
    if len(impl) != len(model):
        return min(len(impl), len(model))
    return None


# ------------------------------------------------------------------ oracles (implementation observations only)

class Hist:
    """Replays the implementation's observations of one script and derives the facts the oracles need."""

    def __init__(self, cfgline, lines):
        self.cfg = dict(t.split("=", 1) for t in cfgline.split()[1:])
        self.lines = [parse_obs(l) for l in lines]
        self.shards = int(self.cfg.get("shards", 1))
        self.hdiv, self.hmul = int(self.cfg.get("hdiv", 1)), int(self.cfg.get("hmul", 1))

    def shard_of(self, k):
        return ((k // self.hdiv) * self.hmul) % self.shards

    @staticmethod
    def cap_for(total, shards, i):
        return total // shards + (1 if i < total % shards else 0)


def evs(d):
    return [tuple(x.split(":")) for x in d.get("ev", "").split(",") if x]


def oracle_c05(h):
    """usage = sum of weights of findable keys; entries = their number; eviction minimality; bound; clear."""
    ver = {}      # value(version) -> (key, weight, phantom)
    cur = {}      # key -> version currently findable (by events)
    total_cap = int(h.cfg["cap"])
    lru = h.cfg["algo"] == "lru"
    looked = {}   # version -> live handles obtained by lookup/hold (for the LRU exception)
    hv = {}       # handle -> version
    hkind = {}
    pin = set()   # versions looked up and continuously held since (LRU keeps them unevictable)
    prev_usage_by_shard = [0] * h.shards
    for n, (op, kv, d) in enumerate(h.lines):
        if isinstance(d, str):
            return (n, f"implementation observation {d}")
        name = op.split()[0]
        find = [int(x) for x in d["find"].split(",") if x]
        if name == "ins":
            ver[kv["v"]] = (int(kv["k"]), int(kv["w"]), kv["ph"] == "1")
            hv[kv["h"]] = kv["v"]; hkind[kv["h"]] = "ins"
        if name in ("dropcache", "dropcache2"):
            continue
        # leave events update the current versions
        for e, k, v in evs(d):
            if cur.get(int(k)) == v:
                del cur[int(k)]
        if name == "ins" and kv["ph"] != "1":
            cur[int(kv["k"])] = kv["v"]
        if name in ("get", "gof", "remove") and d["ret"].startswith("hit:"):
            hv[kv["h"]] = d["ret"][4:]; hkind[kv["h"]] = name
            if name in ("get", "gof"):
                pin.add(d["ret"][4:])
        if name == "touch" and d["ret"] == "1":
            # a lookup without a handle of its own: the entry stays unevictable only while other handles are held
            v0 = cur.get(int(kv["k"]))
            if v0 in hv.values():
                pin.add(v0)
        if name == "clone" and kv["h"] in hv:
            hv[kv["h2"]] = hv[kv["h"]]; hkind[kv["h2"]] = hkind[kv["h"]]
        if name == "drop":
            v0 = hv.pop(kv["h"], None); hkind.pop(kv["h"], None)
            if v0 is not None and v0 not in hv.values():
                pin.discard(v0)
        # exactness
        if sorted(cur.keys()) != sorted(find):
            return (n, f"findable keys {find} differ from keys without a leave event {sorted(cur)}")
        want = sum(ver[cur[k]][1] for k in find)
        if int(d["usage"]) != want:
            return (n, f"usage()={d['usage']} but the findable entries weigh {want}")
        if int(d["entries"]) != len(find):
            return (n, f"entries()={d['entries']} but {len(find)} keys are findable")
        if name == "clear" and (int(d["usage"]) != 0 or int(d["entries"]) != 0):
            return (n, "clear() left usage/entries non-zero")
        if name == "resize":
            total_cap = int(kv["cap"])
        # per-shard usage now
        us = [0] * h.shards
        for k in find:
            us[h.shard_of(k)] += ver[cur[k]][1]
        if name == "flush" and (int(d["usage"]) != 0 or int(d["entries"]) != 0 or find):
            # the offload at close takes every resident record, referenced or not, whatever it weighs
            return (n, f"flush() left entries resident: usage {d['usage']}, entries {d['entries']}, findable {sorted(find)}")
        if name in ("ins", "resize", "evict_all"):
            victims = [(int(k), v) for e, k, v in evs(d) if e == "E"]
            for s in range(h.shards):
                capS = Hist.cap_for(total_cap, h.shards, s)
                if name == "ins":
                    if kv["ph"] == "1" or h.shard_of(int(kv["k"])) != s:
                        if any(h.shard_of(k) == s for k, _ in victims) and kv["ph"] == "1":
                            return (n, "a phantom insert evicted entries")
                        continue
                    w = int(kv["w"]); target = max(capS - w, 0)
                elif name == "resize":
                    target = capS
                else:
                    target = 0
                u = prev_usage_by_shard[s]
                for k, v in victims:
                    if h.shard_of(k) != s:
                        continue
                    if not (u > target):
                        return (n, f"evicted key {k} although usage {u} <= target {target} (over-eviction)")
                    u -= ver[v][1]
                # bound afterwards
                if name == "ins":
                    w = int(kv["w"])
                    if us[s] > capS and w <= capS:
                        # allowed only if every other resident is held through a lookup (LRU)
                        others = [k for k in find if h.shard_of(k) == s and k != int(kv["k"])]
                        if not (lru and all(cur[k] in pin for k in others)):
                            return (n, f"shard {s} over capacity after insert: usage {us[s]} > {capS}")
                if name == "resize" and us[s] > capS:
                    others = [k for k in find if h.shard_of(k) == s]
                    if not (lru and all(cur[k] in pin for k in others)):
                        return (n, f"shard {s} over capacity after resize: usage {us[s]} > {capS}")
        prev_usage_by_shard = us
    return None


def oracle_c13(h):
    """every admitted entry: exactly one leave notification, none while findable; pipe = evictions."""
    count = {}   # version -> number of leave events
    ver = {}
    cur = {}
    piped = h.cfg.get("pipe") == "1"
    for n, (op, kv, d) in enumerate(h.lines):
        if isinstance(d, str):
            return (n, f"implementation observation {d}")
        name = op.split()[0]
        if name == "ins":
            ver[kv["v"]] = (int(kv["k"]), kv["ph"] == "1")
            count.setdefault(kv["v"], [])
        es = evs(d)
        for e, k, v in es:
            count.setdefault(v, []).append(e)
            if v in ver and not ver[v][1]:
                if len(count[v]) > 1:
                    return (n, f"entry {k}:{v} got a second leave notification {count[v]}")
            if cur.get(int(k)) == v:
                del cur[int(k)]
        if name == "ins" and kv["ph"] != "1":
            cur[int(kv["k"])] = kv["v"]
        # reasons
        for e, k, v in es:
            ok = {"ins": "ERM", "resize": "E", "evict_all": "E", "flush": "E", "remove": "M", "clear": "C",
                  "dropcache": "C", "dropcache2": "CE", "drop": "E"}.get(name, "")
            if e not in ok:
                return (n, f"notification {e}:{k}:{v} during {name}")
            if name == "ins":
                if kv["ph"] == "1" and e == "E":
                    return (n, f"Evict notification {k}:{v} during the insertion of a non-admitted (disk-only) entry")
                if e == "R" and int(k) != int(kv["k"]):
                    return (n, f"Replace notification for key {k} during insert of {kv['k']}")
                if e == "M" and not (kv["ph"] == "1" and v == kv["v"]):
                    return (n, "Remove notification during insert of an admitted entry")
            if name == "drop" and not ver.get(v, (0, False))[1]:
                return (n, f"Evict notification for admitted entry {k}:{v} on handle drop")
        if name not in ("dropcache", "dropcache2"):
            find = [int(x) for x in d["find"].split(",") if x]
            for k in find:
                v = cur.get(k)
                if v is None:
                    return (n, f"key {k} findable but its entry already has a leave notification")
                if count.get(v):
                    return (n, f"key {k} findable but entry {v} was notified {count[v]}")
        # pipe hand-off: exactly the Evict notifications of this step
        pe = [(k, v) for e, k, v in es if e == "E"]
        pp = [tuple(x.split(":")) for x in d.get("pipe", "").split(",") if x]
        if piped and sorted(pe) != sorted(pp):
            return (n, f"pipe hand-offs {pp} differ from evictions {pe}")
        if not piped and pp:
            return (n, "pipe hand-off without a pipe")
    last = h.lines[-1][0].split()[0] if h.lines else ""
    if last in ("dropcache", "dropcache2"):
        for v, (k, ph) in ver.items():
            c = count.get(v, [])
            if not ph and len(c) != 1:
                return (len(h.lines) - 1, f"admitted entry {k}:{v} has {len(c)} leave notifications at the end")
    return None


def oracle_c18(h):
    """refs = live handles to the same entry; handle contents stable; is_outdated truthful; no leak;
    LRU: a looked-up entry is not evicted while a handle to it is held."""
    ver, cur, hv = {}, {}, {}
    total_cap = int(h.cfg["cap"])
    lru = h.cfg["algo"] == "lru"
    pin = set()
    for n, (op, kv, d) in enumerate(h.lines):
        if isinstance(d, str):
            return (n, f"implementation observation {d}")
        name = op.split()[0]
        if name == "ins":
            ver[kv["v"]] = (int(kv["k"]), int(kv["w"]), kv["ph"] == "1"); hv[kv["h"]] = kv["v"]
        for e, k, v in evs(d):
            if lru and e == "E" and v in pin and name in ("ins", "resize", "evict_all"):
                return (n, f"LRU evicted {k}:{v}, which was looked up and is still held")
            if cur.get(int(k)) == v:
                del cur[int(k)]
        if name in ("get", "gof") and d["ret"].startswith("hit:"):
            pin.add(d["ret"][4:])
        if name == "touch" and d["ret"] == "1" and cur.get(int(kv["k"])) in hv.values():
            pin.add(cur.get(int(kv["k"])))
        if name == "drop":
            v0 = hv.get(kv["h"])
            if v0 is not None and sum(1 for x in hv.values() if x == v0) == 1:
                pin.discard(v0)
        if name == "ins" and kv["ph"] != "1":
            cur[int(kv["k"])] = kv["v"]
        if name in ("get", "gof", "remove") and d["ret"].startswith("hit:"):
            hv[kv["h"]] = d["ret"][4:]
        if name == "clone" and kv["h"] in hv:
            hv[kv["h2"]] = hv[kv["h"]]
        if name == "drop":
            hv.pop(kv["h"], None)
        if name == "resize":
            total_cap = int(kv["cap"])
        if name in ("dropcache", "dropcache2"):
            continue
        hs = [x.split(":") for x in d.get("hs", "").split(",") if x]
        if sorted(x[0] for x in hs) != sorted(hv.keys()):
            return (n, "live handle set differs")
        for hid, refs, out, val, key, w in hs:
            v = hv[hid]
            if val != v or int(key) != ver[v][0] or int(w) != ver[v][1]:
                return (n, f"handle {hid} reads {key}:{val}:w{w}, expected {ver[v][0]}:{v}:w{ver[v][1]}")
            nlive = sum(1 for x in hv.values() if x == v)
            if int(refs) != nlive:
                return (n, f"handle {hid}: refs()={refs} but {nlive} live handles reference the entry")
            want_out = 0 if cur.get(ver[v][0]) == v else 1
            if int(out) != want_out:
                return (n, f"handle {hid}: is_outdated()={out}, a lookup of key {key} "
                           f"{'would' if want_out == 0 else 'would not'} return this entry")
        # no leak: an insert brings the shard within capacity unless every other resident entry of the shard is pinned by
        # a lookup whose handle (or a clone of it) is still alive - under LRU only; once the last handle is dropped the
        # entry is evictable again
        if name == "ins" and kv["ph"] != "1":
            find = [int(x) for x in d["find"].split(",") if x]
            s = h.shard_of(int(kv["k"]))
            capS = Hist.cap_for(total_cap, h.shards, s)
            us = sum(ver[cur[k]][1] for k in find if h.shard_of(k) == s and k in cur)
            if us > capS and int(kv["w"]) <= capS:
                others = [k for k in find if h.shard_of(k) == s and k in cur and k != int(kv["k"])]
                free = [k for k in others if not (lru and cur[k] in pin)]
                if free:
                    return (n, f"shard {s} stays over capacity after insert ({us} > {capS}) although the entries of keys {free} "
                               f"are not pinned by any live lookup handle (leak)")
    return None


def oracle_c17(h):
    """a lookup of k returns only a value inserted for k; a just-inserted key is findable unless it alone is evicted."""
    ver = {}
    for n, (op, kv, d) in enumerate(h.lines):
        if isinstance(d, str):
            return (n, f"implementation observation {d}")
        name = op.split()[0]
        if name == "ins":
            ver[kv["v"]] = int(kv["k"])
        if name in ("get", "gof", "remove") and d["ret"].startswith("hit:"):
            v = d["ret"][4:]
            if ver.get(v) != int(kv["k"]):
                return (n, f"{name} of key {kv['k']} returned value {v} stored for key {ver.get(v)}")
        for hid, refs, out, val, key, w in [x.split(":") for x in d.get("hs", "").split(",") if x]:
            if ver.get(val) != int(key):
                return (n, f"handle {hid} pairs key {key} with value {val} of key {ver.get(val)}")
    return None


ORACLES = {"C05": oracle_c05, "C13": oracle_c13, "C18": oracle_c18, "C17": oracle_c17}


def classify(lines):
    """situations reached by a trace (for the non-triviality count and the input distribution)"""
    flags = set()
    held = False
    for l in lines:
        op, kv, d = parse_obs(l)
        if isinstance(d, str):
            flags.add(d.lower()); continue
        name = op.split()[0]
        es = evs(d)
        if any(e == "E" for e, _, _ in es):
            flags.add("evict")
            if name in ("resize", "evict_all", "flush"):
                flags.add(name + "-evict")
            if d.get("hs"):
                flags.add("evict-with-live-handles")
        if any(e == "R" for e, _, _ in es):
            flags.add("replace")
        if any(e == "C" for e, _, _ in es):
            flags.add("clear-nonempty")
        if name == "ins" and kv.get("ph") == "1":
            flags.add("phantom")
        if name == "ins" and int(kv["w"]) > int(d["usage"]) + 0 and not es and kv.get("ph") != "1" and kv["k"] not in d["find"].split(","):
            flags.add("oversize")
        if name == "remove" and d["ret"] != "miss":
            flags.add("remove-hit")
        if name == "touch" and d["ret"] == "1":
            flags.add("touch-hit")
        if name in ("get", "gof") and d["ret"] != "miss":
            flags.add("get-hit")
    return flags
