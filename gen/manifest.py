#!/usr/bin/env python3
"""Writes /verif/MANIFEST.json from the table below (run after changing what is claimed)."""
import json, os, sys

ROOT = os.path.dirname(os.path.dirname(os.path.abspath(__file__)))

COMMON_NOTE = ("Trusted: Coq 8.16.1 kernel; ExtrOcamlBasic extraction + OCaml driver; Rust harness and Python "
               "generators/oracles; the Gallina model is a hand-written reading of the code tied to it by the "
               "correspondence on the inputs explored (DESIGN.md section 6). ")

CLAIMED = {
    "C05": dict(
        text="Theorems over every operation sequence of the generic shard model (usage = summed weight of findable "
             "entries, entries = their number, eviction minimality, capacity bound with the LRU-pin exception, clear, "
             "resize, shard capacities sum to the total) plus a differential correspondence of the extracted model "
             "against foyer-memory on exhaustive short and random long scripts for all five algorithms.",
        ref="4/C05", tech="Coq proof (invariant by induction over op lists) + extracted-model correspondence",
        note="victims of each eviction loop are read from the implementation and validated (admissible, minimal); "
             "single-threaded scripts."),
    "C13": dict(
        text="Theorems: every admitted record has index membership xor exactly one leave event, with the reason of "
             "the step that removed it; pipe log = Evict events; phantom records get Remove then Evict. "
             "Correspondence of events/pipe hand-offs with the real listener and pipe.",
        ref="4/C13", tech="Coq proof (event-log invariant) + extracted-model correspondence",
        note="multi-threaded conservation is not modelled here (C02)."),
    "C14": dict(
        text="Executable models of FIFO, LRU, SIEVE, S3-FIFO and w-TinyLFU predict the victim sequence of the real "
             "code on random scripts and skewed traces; theorems: each container returns only resident unpinned records "
             "(so the generic theorems apply to it), FIFO and LRU refine their stamped specifications, SIEVE follows the "
             "published hand rule for every queue and hand position (first unvisited record from the hand, wrapping; bits "
             "of passed records cleared; all visited: once around); S3-FIFO queue rules and pop totality (Mem/S3Thms.v); w-TinyLFU pop totality, the admission duel between window and "
             "probation heads by estimated frequency, and window overflow order (Mem/LfuThms.v); the count-min sketch: an update raises the counted hash by exactly one and lowers no estimate.",
        ref="4/C14", tech="Coq proof (container invariants, spec refinement) + extracted-model correspondence",
        note="float->integer rounding of derived capacities and the count-min bucket hashing are inputs computed "
             "by the harness with the code's own expressions."),
    "C06": dict(
        text="Theorems over every action sequence of the in-flight/fetch-task model (repaired code): at most one "
             "registered task per key, every pending caller is registered with a live leader, resolving a task's "
             "future strictly decreases a bounded measure and a quiescent state has no pending caller (never hangs), "
             "failed/cancelled fetches cache nothing; kernel-evaluated scenarios for same-entry, error, cancel, donation. "
             "Correspondence: exhaustive short + random scripts on a single-threaded tokio runtime, all five algorithms.",
        ref="4/C06", tech="Coq proof (invariant over the transition system) + extracted-model correspondence",
        note="one RawFetch::poll is one atomic step (single-threaded runtime); poll-internal races on a "
             "multi-threaded runtime are not exhibited; the hybrid disk stage is get_or_fetch_inner's optional fetch."),
    "C11": dict(
        text="Theorems: callers waiting when insert(k,v) completes receive v; afterwards no sequence of fetch/disk "
             "resolutions, failures, cancellations or new callers changes the cached value of k until k is explicitly "
             "inserted/removed again. The pinned snapshot's model (fresh close flag, F3) is refuted by a kernel-checked witness.",
        ref="4/C11", tech="Coq proof (invariant + frame lemma) + extracted-model correspondence",
        note="as C06; the residual window inside one poll on a multi-threaded runtime is unmodelled."),
    "C07": dict(
        text="Theorems (any block/index size, any sequence of batches of admissible entry lengths): the splitter's "
             "'handle loop never needs more than three rounds, the split context invariant carries across batches, "
             "every placed entry is page aligned, behind its blob's index page, inside its block and back to back with "
             "its neighbours; the parts of every physical block, over any sequence of batches, form a chain of blobs "
             "(c07_blocks_are_chained); scan exactness (c07_scan_exact): BlockScanner + the regress check of recovery, "
             "run over what the flusher wrote into a block on top of ARBITRARY older content of that block, return exactly "
             "the entries written, in order, at the addresses given to the indexer (hypotheses: the block's sequences do not "
             "regress - what a reinserted entry violates, finding F10 - and the old content is older). Correspondence: real "
             "Splitter::split vs the extracted model on batch sequences built to fill index and block exactly, continue "
             "blobs across batches and span blocks, half of them filled by the real Buffer::push and read back entry by "
             "entry; the extracted scanner is run over the index pages found on closed device images (reused blocks "
             "included) and must predict what the reopened store serves for every key; an independent scanner (Python) "
             "re-reads the layout; end-to-end streams with a must-hit oracle. Index page byte by byte (Disk/BlobIndex.v): "
             "c07_index_page_roundtrip - BlobIndexReader::read of what BlobIndex::write/seal produced returns exactly the "
             "entries written, whatever the rest of the reused page buffer holds, and c07_scan_exact_bytes composes it with scan "
             "exactness (a block recovered from its bytes yields exactly the entries written); the extracted page writer/reader are compared "
             "byte for byte with the real ones, also on pages with one byte changed.",
        ref="4/C07", tech="Coq proof (splitter invariant, chain invariant, scan exactness) + extracted-model correspondence (splitter and scanner) + oracles",
        note="drives Splitter::split and Buffer::push directly (hook H1); entry data is not part of the scan model (a data "
             "page that parses as an index page is C03's subject)."),
    "C08": dict(
        text="Theorems: decode(encode x) = x for every numeric width, bool, Vec<u8>, String (under from_utf8 validity), "
             "the entry header, and whole entries (value then key, recorded lengths = bytes written, checksum over exactly "
             "those bytes) under the codec round-trip hypothesis for zstd/lz4; a too-small destination is an error and "
             "Buffer::push rejects as a whole / commits exactly; strict prefixes fail to decode. Correspondence: real "
             "Code::encode/decode, Buffer::push, EntryHeader, EntryDeserializer vs the extracted model, XXH64 vs an "
             "independent implementation.",
        ref="4/C08", tech="Coq proof (round-trip laws) + extracted-model correspondence",
        note="zstd/lz4 round-trip is a hypothesis (exercised through the implementation's own decoder); bincode (serde "
             "feature) not modelled; needs hook H1."),
    "C10": dict(
        text="Theorem: for every log size and every sequence of open/append/restart sessions within capacity, with sequences "
             "that are ANY non-zero numbers in ANY order (several flushers write the log batch by batch, not in sequence "
             "order), the next open returns every tombstone ever appended and resumes right behind the last one (the n-th "
             "tombstone sits in slot n). The pinned snapshot's rules (F5: page offset lost; F22: resume behind the newest "
             "tombstone) are refuted by kernel-checked witnesses. Correspondence: real TombstoneLog on an FsDevice across "
             "restart cycles, grid of delete counts around page boundaries, batches appended in sequence order / reversed / "
             "evens before odds, beyond-capacity wraps compared with the model; end-to-end removes with 1..3 flushers.",
        ref="4/C10", tech="Coq proof (layout invariant over sessions) + extracted-model correspondence",
        note="drives TombstoneLog directly (hook H1); suppression of entries by tombstones during recovery is covered "
             "with the recovery model (C04) when built."),
    "C17": dict(
        text="Theorems: for an arbitrary hash function, a memory lookup returns only a record whose key equals the key "
             "asked for, and colliding keys are both stored (generic shard/cache model). Disk tier (collision model: all keys "
             "of one 64-bit hash, keeper probed with the full key, one index slot per hash, decoded key compared before a "
             "disk hit is accepted): every lookup answered in any history of enqueue / delete / flusher steps / reclaim / "
             "restart returns a version created for the key asked for, or nothing; both ways to get it wrong are refuted by "
             "kernel-checked witnesses. Correspondence: memtrace and fetchtrace with colliding user hashers (full collisions, "
             "same-shard collisions); the extracted collision model against the real store with every key colliding "
             "(held flushers, deletes, restarts; every store-level load compared); hybrid oracle stream with a colliding hasher.",
        ref="4/C17", tech="Coq proof + extracted-model correspondence (memory and disk tier)",
        note="the in-flight table's key comparison is covered by the fetch model's correspondence with colliding hashers."),
    "C18": dict(
        text="Theorems: refs = number of live handles, records behind handles never change (append-only arena), "
             "is_outdated <-> a lookup would not return this record, pinned records have live handles (no leak), "
             "hence with no outstanding handles an insert re-establishes the bound. Correspondence of refs / "
             "is_outdated / handle contents after every operation.",
        ref="4/C18", tech="Coq proof (handle/refs invariant) + extracted-model correspondence",
        note="the concurrent dec-refs/release window (F26, found and fixed) is exercised by bin/pinrace: threads looking one key "
             "up, holding and dropping the handle under eviction pressure."),
}

ALL = ["C%02d" % i for i in range(1, 19)]
CLAIMED.update({
    "C01": dict(
        text="Theorem over every history of the one-key hybrid model (memory record, write-queue index (keeper), per-key flusher "
             "FIFO with separate write+index and completion steps, sequence-guarded disk index with tombstones, block reclaim "
             "with reinsertion, lookups split into start and finish, graceful restart) in every interleaving of user calls, "
             "memory eviction, flusher steps, reclaim and restart: every answered lookup returns nothing or the version of the "
             "latest insert no remove has followed (21-clause invariant proved for each of the 12 step kinds). Side conditions "
             "of the theorem: no in-memory-only advice (outside C01), no remove while a disk lookup of the key is in flight "
             "(open finding F14, kernel-checked witness), restart only when recovery's winner is the latest submission. The "
             "pinned snapshot's reclaimer (reinsertions round-robin over the flushers, F15, fixed) is refuted by a kernel-checked "
             "witness. Correspondence: the extracted model against the real HybridCache on deterministic histories (exact lookup "
             "results, exact per-key entry-write counts at quiescent points, results after restart), plus a version oracle over "
             "random histories with held flushers, gated device reads/writes, 1..3 flushers, size- and key-based admission.",
        ref="4/C01", tech="Coq proof (invariant over a transition system) + extracted-model correspondence + version oracle",
        note="PARTIAL where it matters: the model is the projection on one key (other keys act through the sequence counter, "
             "shared blocks and memory pressure, all of which are step parameters); eviction and the hand-off to the pipe are one "
             "atomic step (two user threads racing on one key are not modelled); a failed load dropping the index entry is not "
             "modelled; compression, value sizes beyond the entry limit and the five memory algorithms are exercised by the "
             "oracle stream only. Open findings F14 (remove during an in-flight disk lookup) and F17 (older version after a restart "
             "when the newest copy's block was reclaimed first) are reported as KNOWN-FINDING; both are outside run_ok and have "
             "kernel-checked witnesses."),
    "C12": dict(
        text="Per-step theorems on the same model, valid in every state and therefore along every history: what each of insert "
             "(each Location), eviction, lookup, remove, flusher/reclaimer steps and close adds to the list of cache-entry "
             "submissions, for both policies, admitted/rejected, fresh/young/old entries, flush-on-close on/off; the origin fetch "
             "of get_or_fetch starts only after a memory miss and a disk miss/error (in-flight model). Correspondence: entry "
             "writes of the real device (decoded from logged index pages) must equal the model's submissions per key at every "
             "quiescent point; a second, independent Python oracle prescribes the writes per step.",
        ref="4/C12", tech="Coq proof (step lemmas over the transition system) + extracted-model correspondence + write oracle",
        note="'an in-memory-only entry never reaches the disk' is proved per step (insert, eviction, close), the lifting to whole "
             "histories relies on the model's bookkeeping of the advice of the resident record; throttled admission is covered "
             "by the oracle stream only."),
    "C15": dict(
        text="Theorems: for every reachable state, after close() with flush-on-close under write-on-eviction the resident "
             "version (not in-memory-only, admitted, not young) is on the device, indexed, the pipeline is empty and a lookup "
             "returns it; a reopen whose scan reads the device completely serves exactly it (the winner of recovery is the "
             "highest sequence among copies and logged tombstones, and nothing on the device is newer: invariants TInv, MInv); "
             "with flush-on-close off nothing is submitted at close; whatever a reopened store answers is the latest value; "
             "memory tier (M-SHARD): the flush at close leaves the shard empty and gives every resident record - referenced "
             "or not, whatever it weighs - the eviction step and the hand-off to the pipe (found and fixed F19). "
             "Correspondence and oracle: histories ending in close + reopen (both policies, resident sets up to the buffer limit, "
             "entries updated after their first write, burst close, late remove, repeated close).",
        ref="4/C15", tech="Coq proof (progress of the drain loop + invariant) + extracted-model correspondence + persistence oracle",
        note="PARTIAL: 'the scan reads the device completely' is the hypothesis of the reopen theorem (the scanner's layout is "
             "C07's; violated by open finding F10 when a reinsertion filter is configured, reported as KNOWN-FINDING); idempotent "
             "close and writes after close are checked by the oracle only."),
    "C04": dict(
        text="Theorems on the one-key model, where a crash at a reachable state s followed by a reopen is do_recover(s, vis): "
             "(1) for EVERY history and every part vis of the device the scan reaches, a key reads as a miss or a version really "
             "written for it; (2) for histories within run_ok, the latest submission of the key, once its index page is on the "
             "device (in particular once acknowledged), is exactly what a complete scan serves; a logged delete that is the latest "
             "submission reads as a miss; recovery's winner is never older (in sequence) than any copy the scan sees and, version order following sequence order (invariant MInv), never an older version; the "
             "invariants hold again after a restart, so the statements compose over repeated crash/restart cycles. "
             "Correspondence: the extracted model's prediction for a crash at every quiescent point of deterministic histories "
             "against the real store reopened on the device image; oracle: every write boundary and 1-/3-page tears of the "
             "in-flight write of logged device writes turned into images, reopened, every key read, one more write issued.",
        ref="4/C04", tech="Coq proof (two invariants over the transition system, recovery winner lemmas) + extracted-model "
                          "correspondence + crash-image oracle",
        note="PARTIAL: crash points inside a batch are states of the model only because the blob index page is one page and is "
             "written after the data it lists (flusher.rs order; checked by the crash-image oracle, seeded change C04-m1 reverses "
             "it); "
             "wrap-around (reclaim in progress at the crash) is covered by the oracle only."),
    "C03": dict(
        text="Theorems: (bytes) for arbitrary bytes read from the device, load hands out an entry only if magic and compression "
             "tag are valid and the checksum stored in the header equals the checksum of exactly the bytes decoded as value and "
             "key (XXH64 and the decompressors are parameters); damage that changes that checksum, or the header's magic/tag, "
             "yields a miss; (recovery) for every history and whatever part of the device survives and is reached by the scan, a "
             "recovered store answers a miss or a version really written for the key; an index entry whose bytes fail "
             "verification is a miss; (blob index page, arbitrary bytes) BlobIndexReader::read hands entries to recovery only "
             "if the stored checksum equals the checksum of everything behind it - count included - and can panic only on a page "
             "whose checksum verifies; (tombstone log, no checksum) recovery with the key's tombstones replaced by an ARBITRARY list "
             "still answers a miss or a version really written. Fault-injection oracle: every single-page fault (zero, 0xff, bit flips, swaps within and "
             "across blocks and with the tombstone log) on images of real workloads, reopen in quiet mode, read every key.",
        ref="4/C03", tech="Coq proof (acceptance lemma over arbitrary bytes; unconditional version invariant) + extracted-model "
                          "correspondence + fault-injection oracle",
        note="PARTIAL: the tombstone page parser is exercised by the oracle only (no Coq model of its "
             "byte format beyond C10's log); the blob index page model is tied to the code by the fmt/bidx stream of the C07 check; 'opening never panics' is an observation of the oracle runs; header fields other "
             "than the lengths are not covered by the entry checksum (a flip of hash/sequence in the header is caught by the "
             "key comparison or not at all - noted in DESIGN.md)."),
    "C09": dict(
        text="Theorems over every event sequence of the block-manager model (a writer asks for a block / a block is finished / "
             "a reclaim is done; any picker, any threshold, any reclaim concurrency): every block is clean, being written, "
             "evictable or being reclaimed - exactly one of them - so a block being written is handed to nobody else, cannot be "
             "picked and is not being reclaimed; whenever a writer waits, a reclaim is running (unless every block is being "
             "written) and the block it frees goes to a waiter; under FIFO picking the reclaim order is the fill order. Entry "
             "level (one-key model): the reclaim step preserves the lookup-correctness invariant (loadable intact or a miss), an "
             "entry picked by the reinsertion filter is served again after its block is reclaimed and the flusher drained. "
             "Correspondence: the real BlockManager's event trace (hook H2) against the extracted model - same blocks handed out "
             "in the same order, same reclaims started in the same order - on wrap-around workloads with 1..2 flushers, 1..2 "
             "reclaimers, thresholds 1..2, 4..8 blocks; oracle: sustained overload of several device capacities, wait()/close() "
             "return, every lookup intact or a miss, reinsertion survival.",
        ref="4/C09", tech="Coq proof (partition invariant by permutation, progress invariant) + extracted-model correspondence "
                          "through an event hook + overload oracle",
        note="PARTIAL: 'eventually obtains a block' is proved as 'a reclaim is in progress whenever a writer waits'; that the "
             "reclaimer task itself terminates (device reads/writes complete) is the oracle's observation; completion orders of "
             "concurrent block writes are exercised, not enumerated; open finding F10 (reinserted entries and recovery after a "
             "restart) bears on this property too and is reported by C15's check."),
    "C02": dict(
        text="Proved: the specification (an atomic register per key whose reads may additionally miss), linearizability of "
             "a concurrent history over invocation/response stamps, and the soundness of the history checker - it never "
             "rejects a linearizable history, so each rejection is a genuine violation; and the mechanism: operations that take "
             "effect atomically at one point inside their interval, in an order that follows the specification, give a "
             "linearizable history; the sequential shard model, seen through any key, follows the specification. Checked on the real cache: per-thread programs (2..4 threads; insert, remove, get, contains, "
             "touch, get_or_fetch, clear, resize, evict_all) released by a barrier with randomised yields/spins, all five "
             "algorithms, 1..4 shards, keys sharing and spanning shards, zero / mixed weights, a rejecting filter; every "
             "round's history is projected on each key and given to the extracted checker; entry handles are re-read at the end "
             "of every round.",
        ref="4/C02", tech="Coq proof (soundness of the extracted history checker; atomic-effects theorem) + concurrent runs of "
                          "the real cache checked by the extracted checker",
        note="PARTIAL by nature: that the real operations are atomic under the shard lock is tested on the schedules the OS "
             "produces (thousands of rounds), not proved and not enumerated; the checker is sound but not complete (it examines "
             "each read on its own). Found and fixed F16 (an insert overtaken by an older fetch result)."),
    "C16": dict(
        text="Theorem on the lock-phase model of an API call (weighter/filter before the shard lock, listener and destructors "
             "after the guard is dropped): every tree of re-entrant calls, of any shape and depth, entered without the lock "
             "returns without it; with callbacks inside the critical section any callback that uses the cache blocks. Checked on "
             "the real cache: listener, weighter, filter and value destructor all call back into the same single-shard cache "
             "(get, contains, insert, remove, nested one level), all five algorithms, 1..3 threads, capacities 1..3, phantom "
             "inserts, under a watchdog; key destructors and unused fetch futures re-entering the cache (bin/reentkeys; found "
             "and fixed F27).",
        ref="4/C16", tech="Coq proof (lock-phase model) + re-entrant concurrent runs of the real cache under a deadlock watchdog",
        note="PARTIAL: the model states the discipline; that every code path follows it is what the re-entrant runs test "
             "(a callback invoked under the lock deadlocks deterministically on a single shard, as seeded changes C16-m1/m2 "
             "show); lock-order cycles between different locks (shard, in-flight table, keeper) are exercised by the "
             "multi-threaded runs only; the hybrid cache's callbacks are covered through the memory tier."),
})

NOT_YET = "machinery for this property is not built yet in this session (design in DESIGN.md section 4)"


def main():
    checks = []
    for pid in ALL:
        if pid not in CLAIMED:
            continue
        c = CLAIMED[pid]
        checks.append(dict(
            property_id=pid,
            quick_cmd=f"./check {pid} --tier quick",
            thorough_cmd=f"./check {pid} --tier thorough",
            evidence_file=f"/verif/evidence/{pid}.json",
            replay_cmd_template=f"./check {pid} --replay {{path}}",
            engine="coq+correspondence",
            level_claimed=dict(category="proof", text=c["text"], design_ref=c["ref"]),
            level_note=COMMON_NOTE + c["note"],
            technique=c["tech"],
        ))
    m = dict(
        version=1,
        setup_cmd="bash setup.sh",
        hooks=dict(guard="feature verif (cargo feature on foyer-storage / foyer-memory / foyer)",
                   enable="the harness crate /verif/harness depends on /repo by path with features = [\"verif\"] where hooks exist",
                   baseline_off_cmd="cd /repo && cargo nextest run --workspace --no-fail-fast --offline --test-threads 8",
                   source_commits=["f533e99", "0d9d871"], add_only=True),
        engines=[dict(name="coq+correspondence", path="/verif/check",
                      serves_properties=sorted(CLAIMED.keys()),
                      kind_free_text="Coq 8.16 theorems over hand-written Gallina models; models extracted to OCaml "
                                     "and diffed against the Rust code through /verif/harness")],
        checks=checks,
        notes="See DESIGN.md. Findings and fixes: known_findings.json.",
        not_applicable=[dict(property_id=p, reason=NOT_YET) for p in ALL if p not in CLAIMED],
    )
    json.dump(m, open(os.path.join(ROOT, "MANIFEST.json"), "w"), indent=1)
    print("wrote MANIFEST.json:", len(checks), "checks")


if __name__ == "__main__":
    main()
