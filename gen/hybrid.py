"""Storage / hybrid family (C01, C03, C04, C09, C12, C15): script generators, runner, oracles over the
observations of `hybridsim` (real HybridCache on an FsDevice in a scratch directory, logged device writes)."""
import os, random, tempfile
from . import common as C

HYBRIDSIM = os.path.join(C.BIN, "hybridsim")
ALGOS = ["fifo", "lru", "lfu", "s3fifo", "sieve"]


def cfg_line(**kw):
    d = dict(policy="woe", algo="fifo", mem=100000, univ=4, block=65536, blocks=8, tomb=0, foc=1, flushers=1,
             reclaimers=1, clean=1, buffer=16777216, timeout=10)
    d.update(kw)
    return "cfg " + " ".join(f"{k}={v}" for k, v in d.items())


def run_batch(scripts, timeout=900):
    if not scripts:
        return []
    with tempfile.TemporaryDirectory(prefix="hsv") as td:
        sp = os.path.join(td, "s.txt")
        open(sp, "w").write("".join(scripts))
        rc, out = C.sh([HYBRIDSIM, sp], timeout=timeout)
        if rc != 0:
            # the process died (a panic that could not be contained, e.g. inside a poisoned lock or a destructor):
            # run the histories one by one; the one that kills the process is reported as such
            if len(scripts) > 1:
                return [run_batch([x], timeout)[0] for x in scripts]
            out = out + "\nprocess-exit | r=PANIC nw=0 ew= wl=0\n"
    res, cur = [], None
    for line in out.split("\n"):
        if not line.strip():
            continue
        if line.startswith("cfg "):
            cur = (line, []); res.append(cur)
        elif cur is not None:
            cur[1].append(line)
    if len(res) != len(scripts):
        raise C.Broken(f"hybridsim: {len(scripts)} scripts, {len(res)} traces", out[-2000:])
    return res


def run_many(scripts, chunk=8, workers=8):
    chunks = [scripts[i:i + chunk] for i in range(0, len(scripts), chunk)]
    res = C.pmap(run_batch, chunks, workers=workers)
    return [x for r in res for x in r]


def parse(line):
    op, _, obs = line.partition("|")
    op = op.strip()
    kv = dict(t.split("=", 1) for t in op.split()[1:] if "=" in t)
    o = obs.strip()
    r = o.split(" nw=")[0][2:] if o.startswith("r=") else o
    tail = dict(t.split("=", 1) for t in o.split(" nw=")[-1].replace("ew=", " ew=").split() if "=" in t) if " nw=" in o else {}
    nw = int(o.split(" nw=")[1].split()[0]) if " nw=" in o else 0
    ew = []
    if " ew=" in o:
        s = o.split(" ew=")[1].split(" wl=")[0].strip()
        ew = [tuple(map(int, x.split(":"))) for x in s.split(",") if x]
    wl = int(o.split(" wl=")[1]) if " wl=" in o else 0
    return op.split()[0], kv, r, nw, ew, wl


def val(s):
    """'1:2:100' or '1:2:100:CORRUPT' -> (key, ver, len, corrupt)"""
    p = s.split(":")
    return int(p[0]), int(p[1]), int(p[2]), len(p) > 3 and p[3] == "CORRUPT"


def lookup_result(r):
    """result of get/gof -> None (miss) | (key, ver, len, corrupt, source, fetched)"""
    if r == "miss":
        return None
    if r.startswith("hit:"):
        p = r[4:].split(":")
        corrupt = "CORRUPT" in p
        p = [x for x in p if x != "CORRUPT"]
        fetched = 0
        src = p[3] if len(p) > 3 else ""
        for x in p:
            if x.startswith("fetched="):
                fetched = int(x[8:])
        return int(p[0]), int(p[1]), int(p[2]), corrupt, src, fetched
    return ("err", r)


# ------------------------------------------------------------------ C01: freshness

def oracle_c01(cfgl, lines):
    cfg = dict(t.split("=", 1) for t in cfgl.split()[1:])
    tomb = cfg.get("tomb") == "1"
    truth, ever = {}, {}          # key -> version | None ; key -> set of versions ever inserted
    restarted_removed = set()     # keys removed before a restart without a tombstone log (may legitimately reappear)
    # an update the admission filter rejects deletes the older disk copy (store.enqueue): without the tombstone log that
    # delete is as volatile as an explicit one ("either the tombstone log or RecoverMode::None must be enabled ...")
    adm = cfg.get("admit", "all")
    limit = int(cfg.get("block", 65536)) - int(cfg.get("index", 4096))
    def rejected(k, size):
        # an entry that no block can hold is dropped by the flusher, which deletes the older disk copy: like a rejected
        # update, it is an implicit delete (and as volatile as one without the tombstone log)
        if max(16, size) + 52 > limit:
            return True
        if adm == "all":
            return False
        if adm in ("none", "throttle"):
            return True
        if adm.startswith("size<"):
            return size + 8 >= int(adm[5:]) - 64      # estimated size, with a margin for the bound itself
        return k not in set(map(int, adm.split(",")))
    implicit_removed = set()
    cleared = set()
    held = False
    for n, l in enumerate(lines):
        name, kv, r, nw, ew, wl = parse(l)
        if name in ("hold", "iogate"):
            held = True
        if name in ("unhold", "ioopen"):
            held = False
        if r == "HANG" and held:
            return None           # the script itself blocks the flushers (an artefact of shrinking): not a history of the claim
        if r in ("PANIC", "HANG"):
            return (n, f"{name}: {r}")
        if name in ("ins", "sins", "sinskeep"):
            k, v = int(kv["k"]), int(kv["ver"])
            truth[k] = v; ever.setdefault(k, set()).add(v); cleared.discard(k)
            # (the storage writer's force() skips only the writer's own check: the entry still passes store.enqueue's filter)
            if rejected(k, int(kv.get("size", 64))):
                implicit_removed.add(k)
            else:
                restarted_removed.discard(k); implicit_removed.discard(k)
        elif name == "rm":
            truth[int(kv["k"])] = None
        elif name == "clear":
            # clear() wipes the disk tier physically (index cleared, every block cleaned): unlike a delete it does not
            # depend on the tombstone log, and nothing from before it can come back
            for k in list(truth):
                truth[k] = None
            cleared = set(truth); restarted_removed = set(); implicit_removed = set()
        elif name == "reopen":
            if not tomb:
                restarted_removed |= {k for k, v in truth.items() if v is None and k not in cleared} | implicit_removed
        elif name in ("get", "gof"):
            k = int(kv["k"])
            res = lookup_result(r)
            if res is None:
                continue
            if res[0] == "err":
                continue
            key, ver, ln, corrupt, src, fetched = res
            if name == "gof" and fetched:
                truth[k] = int(kv["ver"]); ever.setdefault(k, set()).add(int(kv["ver"])); cleared.discard(k)
                if rejected(k, int(kv.get("size", 64))):
                    implicit_removed.add(k)
                else:
                    restarted_removed.discard(k); implicit_removed.discard(k)
            if key != k:
                return (n, f"lookup of key {k} returned a value written for key {key}")
            if corrupt:
                return (n, f"lookup of key {k} returned damaged bytes")
            want = truth.get(k)
            if want is None:
                if k in restarted_removed and ver in ever.get(k, ()):
                    continue      # documented: without the tombstone log a removed entry may reappear after a restart
                return (n, f"lookup of key {k} returned version {ver} although the key was removed / never inserted")
            if ver != want:
                if k in restarted_removed and ver in ever.get(k, ()):
                    continue      # same documented case: the delete implied by a rejected update was lost with the restart
                return (n, f"lookup of key {k} returned version {ver}, the latest completed insert is version {want}")
    return None


# ------------------------------------------------------------------ C12: when are entries written

def oracle_c12(cfgl, lines):
    """quiescent histories (every step followed by wait): entry writes per step must be what policy and
    placement advice prescribe"""
    cfg = dict(t.split("=", 1) for t in cfgl.split()[1:])
    woi = cfg.get("policy") == "woi"
    foc = cfg.get("foc", "1") == "1"
    admit = cfg.get("admit", "all")
    admitted = (lambda k: True) if admit == "all" else ((lambda k: False) if admit in ("none", "throttle") else
                                                       (lambda k, s=set(map(int, admit.split(","))): k in s))
    mem = {}        # resident key -> dict(loc, from_disk)
    expect = {}     # key -> number of entry writes still owed
    inmem_keys = set()
    closed = False
    for n, l in enumerate(lines):
        name, kv, r, nw, ew, wl = parse(l)
        if r in ("PANIC", "HANG"):
            return (n, f"{name}: {r}")
        if closed and name not in ("reopen", "probe", "close"):
            if ew:
                return (n, f"entry writes {ew} after close")
            continue
        if name == "ins":
            k = int(kv["k"]); loc = kv.get("loc", "default")
            if loc == "inmem":
                inmem_keys.add(k)
            if loc != "ondisk":
                mem[k] = dict(loc=loc, from_disk=False)
            else:
                mem.pop(k, None)
            if loc != "inmem" and admitted(k) and (woi or loc == "ondisk"):
                # WOI: written at once.  OnDisk advice: phantom in memory, its drop hands it to the disk tier
                # (under WOI both paths fire: the insert enqueues and the phantom's drop is not piped)
                expect[k] = expect.get(k, 0) + 1
        elif name == "gof":
            k = int(kv["k"]); res = lookup_result(r)
            if res and res[0] != "err":
                key, ver, ln, corrupt, src, fetched = res
                if fetched:
                    if src != "Outer":
                        return (n, "the origin fetch ran although the lookup was a hit")
                    mem[k] = dict(loc="default", from_disk=False)
                    if woi and admitted(k):
                        expect[k] = expect.get(k, 0) + 1
                elif src == "Disk":
                    mem[k] = dict(loc="default", from_disk=True)
        elif name == "get":
            k = int(kv["k"]); res = lookup_result(r)
            if res and res[0] != "err" and res[4] == "Disk":
                mem[k] = dict(loc="default", from_disk=True)
        elif name == "rm":
            mem.pop(int(kv["k"]), None)
        elif name == "memevict":
            for k, m in mem.items():
                if not woi and m["loc"] != "inmem" and not m["from_disk"] and admitted(k):
                    expect[k] = expect.get(k, 0) + 1
            mem = {}
        elif name == "close":
            if foc and not woi:
                for k, m in mem.items():
                    if m["loc"] != "inmem" and not m["from_disk"] and admitted(k):
                        expect[k] = expect.get(k, 0) + 1
            mem = {}
            closed = True
        elif name == "reopen":
            closed = False
        # account the writes observed at this step
        for (h, s) in ew:
            if h in inmem_keys:
                return (n, f"entry advised in-memory-only (key {h}) was written to disk during {name}")
            if expect.get(h, 0) <= 0:
                return (n, f"unexpected disk write of key {h} (sequence {s}) during {name}: "
                           f"policy {'write-on-insertion' if woi else 'write-on-eviction'} prescribes none")
            expect[h] -= 1
        if name in ("wait", "close"):
            owed = {k: c for k, c in expect.items() if c > 0}
            if owed:
                return (n, f"entries {sorted(owed)} should have been written by now "
                           f"({'write-on-insertion' if woi else 'write-on-eviction'}) but were not")
    return None


# ------------------------------------------------------------------ C15: graceful close persists memory

def oracle_c15(cfgl, lines):
    cfg = dict(t.split("=", 1) for t in cfgl.split()[1:])
    foc = cfg.get("foc", "1") == "1"
    woi = cfg.get("policy") == "woi"
    mem, truth = {}, {}
    at_close = None
    closed = False
    owed = set()      # keys whose write was requested before close and may still be in the queue
    for n, l in enumerate(lines):
        name, kv, r, nw, ew, wl = parse(l)
        if r in ("PANIC", "HANG"):
            return (n, f"{name}: {r}")
        if name == "dropcache":
            name = "close"            # the last handle is dropped without close(): the cache closes itself
        if name == "wait":
            owed = set()
        if name == "memevict" and not closed and not woi:
            owed |= {k for k, loc in mem.items() if loc != "inmem"}
        if name == "ins" and not closed:
            k = int(kv["k"]); loc = kv.get("loc", "default")
            truth[k] = int(kv["ver"])
            if loc != "inmem" and (woi or loc == "ondisk"):
                owed.add(k)
            if loc != "ondisk":
                mem.pop(k, None)
                mem[k] = loc
        elif name in ("ins", "rm") and closed:
            if ew:
                return (n, "a write after close reached the disk")
        elif name == "rm" and not closed:
            mem.pop(int(kv["k"]), None); truth[int(kv["k"])] = None
        elif name == "memevict" and not closed:
            mem = {}
        elif name == "close":
            if not closed:
                memcap = int(cfg.get("mem", 100000))
                if memcap < 1000 and cfg.get("algo") == "fifo":
                    # small FIFO memory: only the last `mem` inserted keys are resident
                    keep = list(mem)[-memcap:]
                    mem = {k: mem[k] for k in keep}
                at_close = dict(mem)
                extra = [e for e in ew if e[0] not in owed]
                if not foc and extra:
                    return (n, f"flush-on-close is disabled but close wrote entries {extra} that were not already queued")
            elif ew:
                return (n, "a second close wrote entries")
            closed = True
        elif name == "reopen":
            closed = False; mem = {}
        elif name == "get":
            k = int(kv["k"]); res = lookup_result(r)
            if at_close is not None and k in at_close and at_close[k] != "inmem" and truth.get(k) is not None and (foc or woi):
                if res is None:
                    return (n, f"key {k} was resident in memory at close (flush-on-close) but is not retrievable after reopen")
                if res[0] != "err" and res[1] != truth[k]:
                    return (n, f"key {k} reads version {res[1]} after reopen, its latest value at close was version {truth[k]}")
            if res and res[0] != "err":
                if truth.get(k) is None and cfg.get("tomb") == "1":
                    return (n, f"removed key {k} is back after reopen")
                mem[k] = "default"
    return None


# ------------------------------------------------------------------ C09: reclaim

def oracle_c09(cfgl, lines):
    cfg = dict(t.split("=", 1) for t in cfgl.split()[1:])
    reins = set(map(int, cfg["reinsert"].split(","))) if cfg.get("reinsert", "none") != "none" else set()
    truth, ever = {}, {}
    newest = 0
    for n, l in enumerate(lines):
        name, kv, r, nw, ew, wl = parse(l)
        if r == "HANG":
            return (n, f"{name} did not return within the watchdog (writers stalled)")
        if r == "PANIC":
            return (n, f"{name}: panic")
        if name in ("ins", "sins"):
            truth[int(kv["k"])] = int(kv["ver"])
            newest = max(newest, int(kv["k"]))
            ever.setdefault(int(kv["k"]), set()).add((int(kv["ver"]), max(16, int(kv.get("size", 64)))))
        elif name == "rm":
            truth[int(kv["k"])] = None
        elif name in ("get", "sload"):
            k = int(kv["k"])
            if name == "get":
                res = lookup_result(r)
                if res is None or res[0] == "err":
                    continue
                key, ver, ln, corrupt = res[0], res[1], res[2], res[3]
            else:
                if r in ("-", "throttled") or r.startswith("err"):
                    if "recent" in cfg and k >= 1000 and truth.get(k) is not None and newest - k <= int(cfg["recent"]):
                        return (n, f"key {k}, written {newest - k} inserts ago, is already gone: blocks are not reclaimed "
                                   "oldest-filled first (a recently filled block was reclaimed)")
                    if k in reins and truth.get(k) is not None and cfg.get("probe_reinsert") == "1":
                        return (n, f"key {k} is admitted by the reinsertion filter but was lost when its block was reclaimed")
                    continue
                key, ver, ln, corrupt = val(r[1:])
            if key != k or corrupt:
                return (n, f"load of key {k} returned {'damaged bytes' if corrupt else f'the entry of key {key}'} "
                           "(a block was rewritten while it still backed an indexed entry)")
            # intact = some value that really was stored for this key (under overload a write may be shed, so an
            # older version can be the one on disk; freshness is C01's subject)
            if (ver, ln) not in ever.get(k, set()):
                return (n, f"load of key {k} returned version {ver} ({ln} bytes), which was never stored for it")
            # and fresh: since a shed write deletes the older copy (F21) nothing but the latest version may be served,
            # however hard the device is thrashed
            if truth.get(k) != ver:
                return (n, f"load of key {k} returned version {ver}, " + ("the key was removed" if truth.get(k) is None else
                           f"the latest insert is version {truth[k]}") + " (an older copy survived the reuse of disk space)")
        elif name == "crashprobe":
            if "post=HANG" in r or r == "HANG":
                return (n, "after reopening the device image a write never completes (no clean block is ever produced)")
    return None


# ------------------------------------------------------------------ C04: crash consistency

def oracle_c04(cfgl, lines):
    cfg = dict(t.split("=", 1) for t in cfgl.split()[1:])
    tomb = cfg.get("tomb") == "1"
    ever = {}                    # key -> set of versions
    acked = {}                   # key -> list of (wl_at_ack, version|None) in order
    pending = {}                 # key -> version|None written since the last wait
    woi = cfg.get("policy") == "woi"
    wrap = cfg.get("wrap") == "1"
    prev = ""
    gate_shut = False
    gated_write = False
    for n, l in enumerate(lines):
        name, kv, r, nw, ew, wl = parse(l)
        if name != "crashprobe":
            prev_, prev = prev, name
        if name == "wait":
            prev = prev_ if prev_ == "memevict" else prev
        if r in ("PANIC", "HANG") and name != "crashprobe":
            return (n, f"{name}: {r}")
        if name == "iogate":
            gate_shut, gated_write = True, False
        if name == "ioopen":
            gate_shut = False
        if name in ("ins", "sins", "rm") and gate_shut:
            # a delete reaches the device only through the tombstone log
            gated_write = name != "rm" or cfg.get("tomb") == "1"
        if name == "waitprobe" and gate_shut and gated_write and "returned=1" in r:
            # wait() is the acknowledgement: it may not return while a device write issued before it is still in flight
            return (n, "wait() returned although the device writes of the preceding insert / delete were still held back: "
                       "a crash now loses an acknowledged write")
        if name in ("ins", "sins"):
            k, v = int(kv["k"]), int(kv["ver"])
            ever.setdefault(k, set()).add(v); pending.setdefault(k, []).append(v)
        elif name == "rm":
            pending.setdefault(int(kv["k"]), []).append(None)
        elif name == "wait":
            # acknowledged as flushed: under write-on-eviction only what was evicted from memory before the wait.
            # Every intermediate state of the interval is recorded (a delete followed by an insert in one batch: the
            # tombstone may reach the log before the new entry's index page - a crash in between reads as a miss).
            if woi or prev == "memevict":
                for k, vs in pending.items():
                    for v in vs:
                        acked.setdefault(k, []).append((wl, v))
                pending = {}
        elif name == "crashprobe":
            cut = int(kv["cut"])
            if r in ("PANIC", "HANG") or "openerr" in r or r.startswith("PANIC"):
                return (n, f"reopening the crash image (cut after {cut} writes, tear {kv.get('tear', 0)}) failed: {r[:80]}")
            body = r.split(" ", 1)[1] if r.startswith("writes=") else r
            if "post=HANG" in body:
                return (n, f"crash image (cut {cut}): the reopened store never completes a write")
            items = body.split(" post=")[0]
            for it in [x for x in items.split(",") if x]:
                k, _, s = it.partition("=")
                k = int(k)
                if s in ("-", "throttled") or s.startswith("err"):
                    got = None
                else:
                    key, ver, ln, corrupt = val(s[1:])
                    if key != k or corrupt or ver not in ever.get(k, set()):
                        return (n, f"crash image (cut {cut}): key {k} reads {s}, which was never inserted for it")
                    got = ver
                # no regress (while no block has been reclaimed): the latest state acknowledged at or before the cut
                hist = [] if wrap else [(w, v) for (w, v) in acked.get(k, []) if w <= cut]
                if hist:
                    w, v = hist[-1]
                    later = {vv for (ww, vv) in acked.get(k, []) if ww > cut} | set(pending.get(k, []))
                    allowed = {v} | later
                    if v is None:
                        if tomb and got is not None and got not in later:
                            return (n, f"crash image (cut {cut}): key {k} was deleted (acknowledged at write {w}) but reads version {got}")
                    else:
                        if got is None:
                            if None not in later:
                                return (n, f"crash image (cut {cut}): key {k} version {v} was acknowledged at write {w} but reads as a miss")
                        elif got not in allowed and not (got > v):
                            return (n, f"crash image (cut {cut}): key {k} reads version {got}, older than the acknowledged version {v}")
    return None


# ------------------------------------------------------------------ C03: corruption

def oracle_c03(cfgl, lines):
    ever = {}
    for n, l in enumerate(lines):
        name, kv, r, nw, ew, wl = parse(l)
        if name in ("ins", "sins"):
            ever.setdefault(int(kv["k"]), set()).add((int(kv["ver"]), max(16, int(kv.get("size", 64)))))
        if r == "PANIC":
            return (n, f"{name} panicked on a damaged device image")
        if r == "HANG":
            return (n, f"{name} hangs on a damaged device image")
        if name == "probe":
            for it in r.split(","):
                k, _, s = it.partition("=")
                k = int(k)
                for part in s.split("/"):
                    if part in ("-", "throttled") or part.startswith("err"):
                        continue
                    key, ver, ln, corrupt = val(part[1:])
                    if key != k or corrupt or (ver, ln) not in ever.get(k, set()):
                        return (n, f"after the fault key {k} reads {part}: not a value that was stored for it")
        if name in ("get", "sload"):
            k = int(kv["k"])
            s = r
            if name == "get":
                res = lookup_result(r)
                if res is None or res[0] == "err":
                    continue
                key, ver, ln, corrupt = res[0], res[1], res[2], res[3]
            else:
                if s in ("-", "throttled") or s.startswith("err"):
                    continue
                key, ver, ln, corrupt = val(s[1:])
            if key != k or corrupt or (ver, ln) not in ever.get(k, set()):
                return (n, f"after the fault key {k} reads {r}: not a value that was stored for it")
    return None


ORACLES = {"C01": oracle_c01, "C12": oracle_c12, "C15": oracle_c15, "C09": oracle_c09, "C04": oracle_c04,
           "C03": oracle_c03}
