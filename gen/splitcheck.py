"""Check flow for C07 (what the flusher writes is what scanning reads back) - splitter level."""
import json, os, random
from . import common as C
from . import fmtgen as G

PAGE = 4096
ASSUME = [
    "Splitter::split is driven directly with batches of entry lengths (hook H1), half of them filled by the real Buffer::push "
    "and read back entry by entry from the parts' data at the indexed offsets; the physical placement "
    "(data at blob_block_offset + part_blob_offset, index page at blob_block_offset) is flusher.rs's; "
    "the device-level end-to-end comparison (real flushers, independent image parser) belongs to the storage stream",
    "every batch goes into clean blocks (reclaim/reuse is the storage stream's subject)",
]


def al(x):
    return (x + PAGE - 1) // PAGE * PAGE


def gen(rng, tier):
    scripts = []
    thorough = tier == "thorough"
    geos = [(65536, 4096), (262144, 4096), (1048576, 4096), (262144, 8192), (2097152, 8192)]
    for _ in range(1500 if thorough else 160):
        B, I = rng.choice(geos)
        cap = (I - 12) // 24
        maxlen = B - I
        s = [f"splitnew B={B} I={I}"]
        seq = 1
        for _ in range(rng.randrange(1, 7)):
            kind = rng.choice(["small", "small", "mixed", "big", "indexfull", "blockfull", "one"])
            n = rng.choice([1, 2, 3, 8, 40])
            if kind == "small":
                lens = [rng.choice([1, 100, 4095, 4096, 4097]) for _ in range(n)]
            elif kind == "mixed":
                lens = [rng.choice([1, 4096, 8192, 20000, maxlen // 2, maxlen - PAGE, maxlen]) for _ in range(n)]
            elif kind == "big":
                lens = [rng.choice([maxlen, maxlen - 1, maxlen - PAGE + 1, maxlen // 2 + 1]) for _ in range(min(n, 4))]
            elif kind == "indexfull":
                # fill the blob index exactly (or one short / one over) with one-page entries
                lens = [rng.choice([1, 4096])] * (cap + rng.choice([-1, 0, 0, 1]))
            elif kind == "blockfull":
                k = (B - I) // PAGE
                lens = [4096] * (k + rng.choice([-1, 0, 0, 1]))
            else:
                lens = [rng.choice([1, 4096, maxlen])]
            lens = [max(1, min(l, maxlen)) for l in lens]
            via = ""
            if rng.random() < 0.5:
                # the buffer is filled by the real Buffer::push (serialized entries are at least 52 bytes)
                lens = [max(52, l) for l in lens]; via = " viabuf=1"
            s.append(f"split lens={','.join(map(str, lens))} seq0={seq}{via}")
            seq += len(lens)
        scripts.append(s)
    return scripts


def parse_parts(o):
    kv = G.kv(o)
    parts = []
    for p in [x for x in kv.get("parts", "").split(";") if x]:
        blk, bbo, pbo, size, cnt, rest = p.split(":", 5)
        inds = [tuple(map(int, i.split("."))) for i in rest.strip("[]").split("/") if i]
        parts.append((int(blk), int(bbo), int(pbo), int(size), int(cnt), inds))
    return int(kv.get("blocks", 1)), parts


def oracle(lines):
    """alignment, containment, disjointness of everything written into one block generation; a scan of
    the resulting image yields exactly the entries written, in order"""
    B = I = 0
    base = 0                       # global id of the batch's first block
    blocks = {}                    # global block -> dict(index={bbo: [idx...]}, entries=[(start, alen, hash, seq, len)])
    for n, l in enumerate(lines):
        cmd, o = l.partition("|")[0].strip(), G.obs(l)
        k = G.kv(cmd)
        if o == "PANIC":
            return (n, "Splitter::split panicked")
        if cmd.startswith("splitnew"):
            B, I = int(k["B"]), int(k["I"]); base, blocks = 0, {}
            continue
        if "databad=" in o:
            bad = G.kv(o)
            return (n, f"{bad['databad']} entries of the batch do not deserialize from the part data at their indexed offset "
                       f"(buffer layout and splitter index disagree); {bad['lenbad']} entries pushed with a different length")
        nb, parts = parse_parts(o)
        lens = [int(x) for x in k["lens"].split(",") if x]
        placed = []
        for blk, bbo, pbo, size, cnt, inds in parts:
            g = base + blk
            b = blocks.setdefault(g, dict(index={}, entries=[]))
            if bbo % PAGE or pbo % PAGE or size % PAGE:
                return (n, f"unaligned blob part {bbo}/{pbo}/{size}")
            if bbo + I > B:
                return (n, f"blob index page at {bbo} does not fit the block")
            prev = b["index"].get(bbo, [])
            full = prev + list(inds)
            if len(full) != cnt:
                return (n, f"sealed index at block {g}+{bbo} lists {cnt} entries, the blob has {len(full)}")
            b["index"][bbo] = full
            expect_off = pbo
            for (h, s, off, ln) in inds:
                start = bbo + off
                if off != expect_off:
                    return (n, f"entry {s}: offset {off} in blob, data of the part puts it at {expect_off}")
                if start % PAGE or off < I or start + al(ln) > B:
                    return (n, f"entry {s} at block offset {start} len {ln}: unaligned, inside the index, or past the block end")
                b["entries"].append((start, al(ln), h, s, ln))
                placed.append((s, ln))
                expect_off += al(ln)
            if expect_off != pbo + size:
                return (n, f"part data length {size} differs from the aligned entries it indexes ({expect_off - pbo})")
        if [ln for _, ln in placed] != lens:
            return (n, f"entries placed {placed} differ from the batch {lens}")
        base += nb - 1
        # regions of each block: pairwise disjoint (entries and index pages)
        for g, b in blocks.items():
            regs = [(bbo, I, "index") for bbo in b["index"]] + [(st, ln, f"entry {s}") for st, ln, h, s, _ in b["entries"]]
            regs.sort()
            for (a0, al0, na), (b0, bl0, nb_) in zip(regs, regs[1:]):
                if a0 + al0 > b0:
                    return (n, f"block {g}: {na} [{a0},{a0 + al0}) overlaps {nb_} [{b0},{b0 + bl0})")
        # scan each block image
        for g, b in blocks.items():
            off, got = 0, []
            while off + I <= B and off in b["index"]:
                idxs = b["index"][off]
                got += [(off + o2, h, s, ln) for (h, s, o2, ln) in idxs]
                off += (idxs[-1][2] + al(idxs[-1][3])) if idxs else B
            want = [(st, h, s, ln) for st, _, h, s, ln in b["entries"]]
            if got != want:
                return (n, f"scanning block {g} yields {len(got)} entries {got[:3]}.. but {len(want)} were written {want[:3]}..")
    return None


def scan_corr(cfgl, lines):
    """the extracted BlockScanner + regress check (Disk/Scan.v recover_block), run over the index pages found on the
    closed device, must predict exactly what the reopened store serves from disk for every key.
    -> (number of blocks scanned, first disagreement or None)"""
    from . import hybrid as H
    cfg = dict(t.split("=", 1) for t in cfgl.split()[1:])
    B, I = int(cfg.get("block", 65536)), int(cfg.get("index", 4096))
    last, ver_of, pages, real = {}, {}, None, {}
    after = False
    for l in lines:
        name, kv, r, nw, ew, wl = H.parse(l)
        if name == "ins":
            last[int(kv["k"])] = int(kv["ver"])
        for (h, sq) in ew:
            ver_of[(h, sq)] = last.get(h)
        if name == "idxdump":
            pages = {}
            for item in r[r.index("[") + 1:r.rindex("]")].split(";"):
                if not item:
                    continue
                loc, _, es = item.partition("=")
                part, _, off = loc.partition("@")
                pages.setdefault(int(part), []).append(f"{off}:{es}")
        if name == "reopen":
            after = True
        if name == "sload" and after:
            real[int(kv["k"])] = None if r == "-" else int(r[1:].split(":")[1])
    if pages is None:
        return 0, None
    parts = sorted(pages)
    out = G.run_model([f"recover B={B} I={I} pages={','.join(pages[p])}" for p in parts])
    best = {}
    for p, o in zip(parts, out):
        infos = G.kv(G.obs(o)).get("infos", "")
        for e in [x for x in infos.split("/") if x]:
            h, sq, off, ln = map(int, e.split("."))
            if h not in best or sq >= best[h]:
                best[h] = sq
    for k, got in sorted(real.items()):
        want = ver_of.get((k, best[k])) if k in best else None
        if k in best and want is None:
            return len(parts), f"the model's scan recovers key {k} with sequence {best[k]}, which the flusher never reported writing"
        if got != want:
            return len(parts), (f"after reopen the store serves key {k} as {'a miss' if got is None else 'version ' + str(got)}; the model's scan of the "
                                f"device's index pages recovers {'nothing' if want is None else 'version ' + str(want)} for it")
    return len(parts), None


def must_hit(lines):
    """burst stream: after the flushers have drained, every inserted key is read back (memory holds one entry)"""
    from . import hybrid as H
    latest, armed = {}, False
    for n, l in enumerate(lines):
        name, kv, r, nw, ew, wl = H.parse(l)
        if name == "ins":
            latest[int(kv["k"])] = int(kv["ver"])
        elif name == "wait":
            armed = True
        elif name == "get" and armed:
            k = int(kv["k"])
            res = H.lookup_result(r)
            if res is None or res[0] == "err":
                return (n, f"key {k} (version {latest.get(k)}) was flushed and never overwritten, removed or reclaimed, but is not read back")
    return None


def gen_bidx(rng, tier):
    """blob index pages byte by byte: entries with extreme field values, a reused (non-zero) page buffer, one byte of the
    sealed page changed - in the checksum field, the count, an entry, the unused rest"""
    out = []
    for _ in range(600 if tier == "thorough" else 60):
        I = rng.choice([4096, 4096, 8192])
        cap = (I - 12) // 24
        n = rng.choice([0, 1, 2, 3, cap - 1, cap, rng.randrange(0, cap + 1)])
        def u(bits):
            return rng.choice([0, 1, 2 ** bits - 1, 2 ** (bits - 1), rng.randrange(2 ** bits), rng.randrange(2 ** 16)])
        ents = "/".join(f"{u(64)}.{u(64)}.{u(32)}.{u(32)}" for _ in range(n))
        where = rng.choice(["ck", "count", "count", "entry", "rest", "any"])
        if where == "ck":
            pos = rng.randrange(0, 8)
        elif where == "count":
            pos = rng.randrange(8, 12)
        elif where == "entry" and n:
            pos = rng.randrange(12, 12 + 24 * n)
        elif where == "rest" and 12 + 24 * n < I:
            pos = rng.randrange(12 + 24 * n, I)
        else:
            pos = rng.randrange(0, I)
        out.append(f"bidx I={I} fill={rng.choice([0, 0, 255, rng.randrange(256)])} ents={ents} flip={pos}:{rng.choice([1, 128, 255, rng.randrange(1, 256)])}")
    return out


def oracle_bidx(line):
    k = G.kv(line.partition("|")[0]); o = G.kv(G.obs(line))
    if G.obs(line) == "PANIC":
        return "BlobIndex::write / seal / BlobIndexReader::read panicked on a page within its capacity"
    if o.get("read") != "ok:" + k.get("ents", ""):
        return f"the sealed index page does not read back as the entries written: {o.get('read', '')[:120]}"
    if o.get("dmg") != "reject":
        pos = int(k["flip"].split(":")[0])
        part = "checksum field" if pos < 8 else "entry count" if pos < 12 else "entries / rest of the page"
        return f"an index page with one byte changed (byte {pos}: {part}) is not rejected: {o.get('dmg', '')[:120]}"
    return None


def run(pid, tier, seed, gate, replay=None):
    C.build_ocaml()
    C.build_harness(["fmt"])
    rng = random.Random(seed * 1000 + 7)
    scripts = [json.load(open(replay))["script"]] if replay else gen(rng, tier)
    flat = [l for s in scripts for l in s]
    bidx_replay = bool(replay) and flat[0].startswith("bidx ")
    if bidx_replay:
        scripts = [["splitnew B=65536 I=4096"]]
    impl = G.run_fmt([l for s in scripts for l in s])
    model = G.run_model(impl)
    res, i = [], 0
    for s in scripts:
        res.append((impl[i:i + len(s)], model[i:i + len(s)])); i += len(s)
    failing, mism, flags = [], [], {}
    nontrivial = set()
    for s, (a, b) in zip(scripts, res):
        o = oracle(a)
        if o:
            failing.append((s, a, b, o))
        elif [G.obs(x) for x in a] != [G.obs(x) for x in b]:
            mism.append((s, a, b))
        fl = set()
        for l in a:
            if "blocks=" in l:
                nb, parts = parse_parts(G.obs(l))
                if nb > 1:
                    fl.add("multi-block batch")
                if len(parts) > nb:
                    fl.add("blob split (index full)")
                if any(p[2] > int(G.kv(s[0])["I"]) for p in parts):
                    fl.add("blob continued across batches")
        for f in fl:
            flags[f] = flags.get(f, 0) + 1
        if fl:
            nontrivial.add(" ".join(s))
    # the index page byte by byte (Disk/BlobIndex.v): seal / read round trip and one changed byte, model vs implementation
    bidx_fail, bidx_mism, bidx_n, bidx_where = None, None, 0, {}
    if not replay or bidx_replay:
        bl = flat if replay else gen_bidx(random.Random(seed * 1000 + 77), tier)
        bi = G.run_fmt(bl)
        bm = G.run_model([x for x in bi if G.obs(x) != "PANIC"])
        bmd = {x.partition("|")[0].strip(): G.obs(x) for x in bm}
        bidx_n = len(bl)
        for x in bi:
            pos = int(G.kv(x.partition("|")[0])["flip"].split(":")[0])
            w = "checksum" if pos < 8 else "count" if pos < 12 else "entries/rest"
            bidx_where[w] = bidx_where.get(w, 0) + 1
            o = oracle_bidx(x)
            if o and not bidx_fail:
                bidx_fail = (x.partition("|")[0].strip(), x[:600], o)
            elif not o and bmd.get(x.partition("|")[0].strip()) != G.obs(x) and not bidx_mism:
                bidx_mism = (x.partition("|")[0].strip(), x[:600], (bmd.get(x.partition("|")[0].strip()) or "")[:600])
    # end to end: multi-blob blocks written, reclaimed and reused through the real store, then a restart; the scan must
    # reconstruct the current generation of every block and nothing of the previous one
    e2e_fail, e2e_n = None, 0
    scan_blocks, scan_bad = 0, None
    if not replay:
        from . import hybrid as H
        C.build_harness(["hybridsim"])
        hs = []
        for i in range(6 if tier == "thorough" else 2):
            r = rng.choice([4, 84]) if i else 84           # second blob of a block holds r entries
            pages = 172 + r
            per_block, nblocks = 170 + r, 4
            extra = 170 if i % 2 == 0 else rng.randrange(1, per_block)
            total = nblocks * per_block + extra
            ops, ver = [], 1
            upd = {rng.randrange(per_block + 1, 2 * per_block): rng.randrange(171, per_block)}   # write n updates an old key
            for n in range(1, total + 1):
                k = upd.get(n, n)
                ops += [f"ins k={k} ver={ver} size=3000", "wait"]; ver += 1
            ops += ["close", "idxdump", "reopen"] + [f"sload k={k}" for k in range(1, total + 1)] + [f"get k={k}" for k in range(1, total + 1)]
            hs.append(H.cfg_line(policy="woi", algo="fifo", mem=1, univ=total + 1, block=pages * 4096, blocks=nblocks, index=4096)
                      + "\n" + "\n".join(ops) + "\n")
        # bursts: many entries in one flusher batch (flushers held while they are inserted), sizes around the page
        # multiples (52 bytes of header, key and length prefix + the value), nothing reclaimed: every key must be read
        # back, before and after a restart
        nb = len(hs)
        for i in range(6 if tier == "thorough" else 2):
            ops, ver = ["hold"], 1
            n = rng.choice([6, 20, 40])
            for k in range(1, n + 1):
                ops.append(f"ins k={k} ver={ver} size={rng.choice([100, 3000, 4043, 4044, 4044, 4045, 8140, 8140, 12236, 20000])}"); ver += 1
            ops += ["unhold", "wait"] + [f"get k={k}" for k in range(1, n + 1)]
            ops += ["close", "idxdump", "reopen"] + [f"sload k={k}" for k in range(1, n + 1)] + [f"get k={k}" for k in range(1, n + 1)]
            hs.append(H.cfg_line(policy="woi", algo="fifo", mem=1, univ=n + 1, block=1048576, blocks=8, index=4096)
                      + "\n" + "\n".join(ops) + "\n")
        # more entries in one block than one blob index lists (170 with a 4 KiB index): the entries of the second and
        # later blobs must be read back at the addresses the flusher gave the indexer - before any restart, and after
        for i in range(3 if tier == "thorough" else 1):
            n = rng.choice([200, 240, 345])
            ops, ver = [], 1
            for k in range(1, n + 1):
                ops.append(f"ins k={k} ver={ver} size=3000"); ver += 1
                if k % rng.choice([5, 7, 11]) == 0:
                    ops.append("wait")
            ops += ["wait"] + [f"get k={k}" for k in range(1, n + 1)]
            ops += ["close", "idxdump", "reopen"] + [f"sload k={k}" for k in range(1, n + 1)] + [f"get k={k}" for k in range(1, n + 1)]
            hs.append(H.cfg_line(policy="woi", algo="fifo", mem=1, univ=n + 1, block=2097152, blocks=4, index=4096)
                      + "\n" + "\n".join(ops) + "\n")
        # clear() while the flusher's open blob does not start at offset 0 of its block (the first blob of the block was sealed
        # with a full index): what is written afterwards must start the - now clean - block over, or recovery will not find it
        for i in range(2 if tier == "thorough" else 1):
            n = rng.choice([200, 240])
            ops, ver = [], 1
            for k in range(1, n + 1):
                ops.append(f"ins k={k} ver={ver} size=3000"); ver += 1
                if k % 7 == 0:
                    ops.append("wait")
            ops += ["wait", "clear"]
            new = list(range(n + 1, n + 1 + rng.choice([3, 10])))
            for k in new:
                ops.append(f"ins k={k} ver={ver} size=3000"); ver += 1
            ops += ["wait"] + [f"get k={k}" for k in new]
            ops += ["close", "idxdump", "reopen"] + [f"sload k={k}" for k in new] + [f"get k={k}" for k in new]
            hs.append(H.cfg_line(policy="woi", algo="fifo", mem=1, univ=n + 12, block=2097152, blocks=4, index=4096)
                      + "\n" + "\n".join(ops) + "\n")
        e2e_n = len(hs)
        for j, (sc, (cfgl, lines)) in enumerate(zip(hs, H.run_many(hs))):
            o = H.oracle_c01(cfgl, lines)
            if not o and j >= nb:
                o = must_hit(lines)
            if o:
                e2e_fail = (sc, lines, o); break
            nblk, bad = scan_corr(cfgl, lines)
            scan_blocks += nblk
            if bad and not scan_bad:
                scan_bad = (sc, lines, bad)
    violations = []
    if bidx_fail:
        rp = C.write_replay(pid, seed, "bidx", dict(property=pid, stream="fmt/bidx", script=[bidx_fail[0]], impl_obs=[bidx_fail[1]],
                                                   oracle=dict(failed_at=0, what=bidx_fail[2]), broken=None))
        violations.append(dict(replay=rp, what=bidx_fail[2]))
    elif bidx_mism:
        rp = C.write_replay(pid, seed, "bidx", dict(property=pid, stream="fmt/bidx", script=[bidx_mism[0]], impl_obs=[bidx_mism[1]],
                                                   model_obs=[bidx_mism[2]], oracle=None,
                                                   broken="correspondence fmt/bidx (Disk/BlobIndex.v bidx_page / bidx_read vs BlobIndex / BlobIndexReader)"))
        violations.append(dict(replay=rp, nofail=True, what="blob index page model and implementation differ"))
    if e2e_fail and not failing:
        sc, lines, o = e2e_fail
        rp = C.write_replay(pid, seed, "e2e", dict(property=pid, stream="hybridsim/reuse", script=sc, impl_obs=lines[-400:],
                                                  oracle=dict(failed_at=o[0], what=o[1]), broken=None))
        violations.append(dict(replay=rp, what=o[1]))
    if failing:
        s, a, b, o = min(failing, key=lambda t: sum(len(x) for x in t[0]))
        rp = C.write_replay(pid, seed, 0, dict(property=pid, stream="fmt/split", script=s, impl_obs=a, model_obs=b,
                                               oracle=dict(failed_at=o[0], what=o[1]), broken=None, failing_cases=len(failing)))
        violations.append(dict(replay=rp, what=o[1]))
    elif mism:
        s, a, b = min(mism, key=lambda t: sum(len(x) for x in t[0]))
        rp = C.write_replay(pid, seed, 0, dict(property=pid, stream="fmt/split", script=s, impl_obs=a, model_obs=b, oracle=None,
                                               broken=f"correspondence fmt/split: {len(mism)} batch sequences differ"))
        violations.append(dict(replay=rp, nofail=True, what="Splitter model and implementation differ"))
    if scan_bad and not failing and not e2e_fail:
        sc, lines, bad = scan_bad
        rp = C.write_replay(pid, seed, "scan", dict(property=pid, stream="hybridsim/scan", script=sc, impl_obs=lines[-60:], oracle=None,
                                                    broken=f"correspondence hybridsim/scan (Disk/Scan.v recover_block vs the reopened store): {bad}"))
        violations.append(dict(replay=rp, nofail=True, what=bad))
    if gate.get("failed") and not failing:
        rp = C.write_replay(pid, seed, "gate", dict(property=pid, oracle=None, broken=f"Coq gate for Props/{pid}.v: {gate['failed']}"))
        violations.append(dict(replay=rp, nofail=True, what=gate["failed"]))
    cov = dict(
        evaluations=len(scripts), distinct_nontrivial=len(nontrivial),
        rule="batch sequences over 5 (block size, index size) geometries with entry-length classes {1 byte, page-1, page, page+1, "
             "half block, max-1 page, max} built to fill the blob index exactly / one short / one over, fill a block exactly, "
             "continue a blob across batches and span several blocks; non-trivial = reached a multi-block batch, an index-full "
             "split or a continued blob",
        samples=[dict(script=scripts[0], impl=[G.obs(x)[:300] for x in res[0][0]])],
        traces_validated_against_impl=len(scripts) - len(mism) - len(failing),
        device_blocks_scanned_by_the_extracted_scanner=scan_blocks,
        index_pages_sealed_read_and_damaged=bidx_n, index_page_damage_positions=bidx_where,
        input_distribution=dict(situations=flags), exhaustive=False)
    return cov, violations, ASSUME
