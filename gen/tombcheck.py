"""Check flow for C10 (tombstone log survives restarts)."""
import json, os, random
from . import common as C
from . import fmtgen as G

ASSUME = [
    "the log is driven directly through TombstoneLog::open/append on a real FsDevice + psync engine in a scratch "
    "directory; a session = open, append, drop (= restart); page writes are atomic and ordered",
    "sequences handed to the log are positive and strictly increasing (what BlockEngine's sequence counter provides)",
]
GRID = [0, 1, 255, 256, 257, 300, 511, 512, 513]


def gen(rng, tier):
    scripts = []
    thorough = tier == "thorough"
    # all pairs of the grid on a 4-page log (capacity 1024), then a probe session
    for a in GRID:
        for b in GRID:
            scripts.append([f"tombnew pages=4", f"tombsession n={a}", f"tombsession n={b}", "tombsession n=0"])
            if a and b:
                scripts.append([f"tombnew pages=4", f"tombsession n={a} perm={1 + (a + b) % 2}", f"tombsession n={b} perm=2", "tombsession n=0"])
    for _ in range(400 if thorough else 40):
        pages = rng.choice([1, 2, 3, 4, 8, 16])
        parts = rng.choice([1, 1, 2]) if pages >= 2 else 1
        s = [f"tombnew pages={pages} parts={parts}"]
        for _ in range(rng.randrange(1, 7 if thorough else 5)):
            n = rng.choice(GRID + [2, 17, 100, 700, rng.randrange(0, 1200)])
            each = 1 if (n <= 40 and rng.random() < 0.5) else 0
            # the order in which a batch reaches the log: sequence order, reversed, or evens before odds (two flushers)
            perm = rng.choice([0, 0, 1, 2])
            s.append(f"tombsession n={n} each={each}" + (f" perm={perm}" if perm else ""))
        s.append("tombsession n=0")
        scripts.append(s)
    return scripts


def oracle(lines):
    """within capacity, every tombstone appended so far is returned by every later open"""
    pages, total = 0, 0
    for n, l in enumerate(lines):
        cmd, o = l.partition("|")[0].strip(), G.obs(l)
        k = G.kv(cmd)
        if o == "PANIC":
            return (n, "panic")
        if cmd.startswith("tombnew"):
            pages, total = int(k["pages"]), 0
        elif cmd.startswith("tombsession"):
            ov = G.kv(o)
            if total + 1 <= pages * 256:
                want = f"1-{total}" if total > 1 else ("1" if total == 1 else "")
                if ov.get("rec", "") != want:
                    return (n, f"after {total} flushed deletes (capacity {pages * 256}) a reopen recovered tombstones "
                               f"{ov.get('rec', '') or 'none'} instead of {want or 'none'}")
            if ov.get("badhash") != "0":
                return (n, "a recovered tombstone carries a hash that was never logged with that sequence")
            total += int(k["n"])
    return None


def run(pid, tier, seed, gate, replay=None):
    C.build_ocaml()
    C.build_harness(["fmt"])
    rng = random.Random(seed * 1000 + 10)
    scripts = [json.load(open(replay))["script"]] if replay else gen(rng, tier)
    flat = [l for s in scripts for l in s]
    impl = G.run_fmt(flat)
    model = G.run_model(impl)
    # regroup
    res, i = [], 0
    for s in scripts:
        res.append((impl[i:i + len(s)], model[i:i + len(s)])); i += len(s)
    failing, mism = [], []
    for s, (a, b) in zip(scripts, res):
        o = oracle(a)
        if o:
            failing.append((s, a, b, o))
        elif [G.obs(x) for x in a] != [G.obs(x) for x in b]:
            mism.append((s, a, b))
    # end to end: removes through the real store with the tombstone log on, restarts, the key must stay absent
    e2e_fail = None
    if not replay:
        from . import hybrid as H
        C.build_harness(["hybridsim"])
        hs = []
        for i in range(200 if tier == "thorough" else 24):
            ops, ver = [], 1
            keys = list(range(4))
            for _ in range(rng.randrange(2, 8)):
                k = rng.choice(keys)
                kind = rng.choice(["ins-wait-rm", "ins-rm", "rm-ins-rm", "ins-rm-ins"])
                if kind == "ins-wait-rm":
                    ops += [f"ins k={k} ver={ver} size=64", "wait", f"rm k={k}"]; ver += 1
                elif kind == "ins-rm":
                    ops += [f"ins k={k} ver={ver} size=64", f"rm k={k}"]; ver += 1
                elif kind == "rm-ins-rm":
                    ops += [f"rm k={k}", f"ins k={k} ver={ver} size=64", f"rm k={k}"]; ver += 1
                else:
                    ops += [f"ins k={k} ver={ver} size=64", f"rm k={k}", f"ins k={k} ver={ver + 1} size=64"]; ver += 2
                if rng.random() < 0.5:
                    ops.append("wait")
                if rng.random() < 0.3:
                    ops += ["wait", "close", "reopen"]
            ops += ["wait", "close", "reopen"] + [f"get k={k}" for k in keys] + ["close", "reopen"] + [f"get k={k}" for k in keys]
            hs.append(H.cfg_line(policy=rng.choice(["woi", "woe"]), algo="fifo", mem=rng.choice([2, 100]), univ=4, tomb=1, blocks=16,
                                 flushers=rng.choice([1, 2, 3]))
                      + "\n" + "\n".join(ops) + "\n")
        # several flushers, runs of back-to-back deletes of keys that go to different flushers, restarts in between
        for _ in range(20 if tier == "thorough" else 4):
            nk = 10
            ops, ver = [], 1
            for k in range(nk):
                ops.append(f"ins k={k} ver={ver} size=1000"); ver += 1
            ops += ["wait", "memevict"]
            alive = list(range(nk))
            for cycle in range(rng.choice([2, 3])):
                rng.shuffle(alive)
                for k in alive[:rng.choice([2, 3, 5])]:
                    ops.append(f"rm k={k}")
                alive = alive[5:] if len(alive) > 5 else alive
                if rng.random() < 0.5:
                    ops.append("wait")
                    if alive:
                        ops += [f"rm k={alive[0]}", "wait"]
                ops += ["wait", "close", "reopen"]
            ops += [f"get k={k}" for k in range(nk)]
            hs.append(H.cfg_line(policy="woi", algo="fifo", mem=100, univ=nk, tomb=1, blocks=16, flushers=rng.choice([2, 3]))
                      + "\n" + "\n".join(ops) + "\n")
        hs = [open(f).read() for f in sorted(__import__("glob").glob(__import__("os").path.join(C.ROOT, "corpus", pid, "*.script")))] + hs
        for sc, (cfgl, lines) in zip(hs, H.run_many(hs)):
            o = H.oracle_c01(cfgl, lines)
            if o:
                e2e_fail = (sc, lines, o); break
    violations = []
    if e2e_fail and not failing:
        sc, lines, o = e2e_fail
        rp = C.write_replay(pid, seed, "e2e", dict(property=pid, stream="hybridsim/tombstone", script=sc, impl_obs=lines,
                                                  oracle=dict(failed_at=o[0], what=o[1]), broken=None))
        violations.append(dict(replay=rp, what=o[1]))
    if failing:
        s, a, b, o = min(failing, key=lambda t: (len(t[0]), sum(int(G.kv(x).get("n", 0)) for x in t[0])))
        rp = C.write_replay(pid, seed, 0, dict(property=pid, stream="fmt/tombstone", script=s, impl_obs=a, model_obs=b,
                                               oracle=dict(failed_at=o[0], what=o[1]), broken=None, failing_cases=len(failing)))
        violations.append(dict(replay=rp, what=o[1]))
    elif mism:
        s, a, b = mism[0]
        rp = C.write_replay(pid, seed, 0, dict(property=pid, stream="fmt/tombstone", script=s, impl_obs=a, model_obs=b, oracle=None,
                                               broken=f"correspondence fmt/tombstone: {len(mism)} scripts differ"))
        violations.append(dict(replay=rp, nofail=True, what="tombstone log model and implementation differ"))
    if gate.get("failed") and not failing:
        rp = C.write_replay(pid, seed, "gate", dict(property=pid, oracle=None, broken=f"Coq gate for Props/{pid}.v: {gate['failed']}"))
        violations.append(dict(replay=rp, nofail=True, what=gate["failed"]))
    multi = sum(1 for s in scripts if sum(int(G.kv(x).get("n", 0)) for x in s) > 256)
    cov = dict(
        evaluations=len(scripts),
        distinct_nontrivial=len(set(" ".join(s) for s in scripts if sum(int(G.kv(x).get("n", 0)) for x in s) > 0)),
        rule="all (first-session count, second-session count) pairs of the grid "
             f"{GRID} on a 4-page log + random multi-session scripts (1..16 pages, 1..2 partitions, batch and one-by-one "
             "appends, beyond-capacity wraps); non-trivial = at least one tombstone appended",
        samples=[dict(script=scripts[len(GRID) + 3], impl=[G.obs(x) for x in res[len(GRID) + 3][0]])],
        traces_validated_against_impl=len(scripts) - len(mism) - len(failing),
        input_distribution=dict(scripts=len(scripts), beyond_one_page=multi), exhaustive=False)
    return cov, violations, ASSUME
