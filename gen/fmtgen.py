"""Disk-format family, codec part (C08): generators, runner, XXH64, oracles."""
import os, random, tempfile
from . import common as C

FMT = os.path.join(C.BIN, "fmt")
DRIVER = os.path.join(C.OCAML, "fmt_driver")
M = (1 << 64) - 1
P1, P2, P3, P4, P5 = 11400714785074694791, 14029467366897019727, 1609587929392839161, 9650029242287828579, 2870177450012600261


def _rotl(x, r):
    return ((x << r) | (x >> (64 - r))) & M


def _round(acc, inp):
    acc = (acc + inp * P2) & M
    return (_rotl(acc, 31) * P1) & M


def _merge(acc, val):
    acc ^= _round(0, val)
    return (acc * P1 + P4) & M


def xxh64(data, seed=0):
    """XXH64 (reference algorithm), independent of the implementation under test"""
    n, i = len(data), 0
    if n >= 32:
        v1, v2, v3, v4 = (seed + P1 + P2) & M, (seed + P2) & M, seed, (seed - P1) & M
        while i + 32 <= n:
            v1 = _round(v1, int.from_bytes(data[i:i + 8], "little"))
            v2 = _round(v2, int.from_bytes(data[i + 8:i + 16], "little"))
            v3 = _round(v3, int.from_bytes(data[i + 16:i + 24], "little"))
            v4 = _round(v4, int.from_bytes(data[i + 24:i + 32], "little"))
            i += 32
        h = (_rotl(v1, 1) + _rotl(v2, 7) + _rotl(v3, 12) + _rotl(v4, 18)) & M
        h = _merge(h, v1); h = _merge(h, v2); h = _merge(h, v3); h = _merge(h, v4)
    else:
        h = (seed + P5) & M
    h = (h + n) & M
    while i + 8 <= n:
        h ^= _round(0, int.from_bytes(data[i:i + 8], "little"))
        h = (_rotl(h, 27) * P1 + P4) & M
        i += 8
    if i + 4 <= n:
        h ^= (int.from_bytes(data[i:i + 4], "little") * P1) & M
        h = (_rotl(h, 23) * P2 + P3) & M
        i += 4
    while i < n:
        h ^= (data[i] * P5) & M
        h = (_rotl(h, 11) * P1) & M
        i += 1
    h ^= h >> 33; h = (h * P2) & M
    h ^= h >> 29; h = (h * P3) & M
    h ^= h >> 32
    return h


def pattern(n, pat):
    """the harness's value patterns, re-implemented"""
    if pat == 0:
        return bytes(n)
    if pat == 1:
        t = b"the quick brown fox "
        return bytes(t[i % 20] for i in range(n))
    if pat == 3:
        return b"\xff" * n
    s = (0x9E3779B97F4A7C15 ^ n ^ (pat << 32)) & M
    out = bytearray()
    for _ in range(n):
        s ^= (s << 13) & M; s ^= s >> 7; s ^= (s << 17) & M
        out.append((s >> 24) & 0xFF)
    return bytes(out)


TYPES = {"u8": 1, "i8": 1, "u16": 2, "i16": 2, "u32": 4, "i32": 4, "f32": 4, "u64": 8, "i64": 8, "f64": 8,
         "usize": 8, "isize": 8, "u128": 16, "i128": 16}


def gen_codec(rng, n_random):
    """enc lines for every numeric type at boundary and random bit patterns; bool/vec/str; malformed decodes"""
    enc, misc = [], []
    for ty, w in TYPES.items():
        bits = 8 * w
        vals = {0, 1, 2, 0x7F, 0x80, 0xFF, (1 << bits) - 1, (1 << bits) - 2, 1 << (bits - 1), (1 << (bits - 1)) - 1,
                (1 << (bits - 1)) + 1, 0x0102030405060708090A0B0C0D0E0F10 & ((1 << bits) - 1)}
        for _ in range(n_random):
            vals.add(rng.getrandbits(bits))
            vals.add(rng.getrandbits(rng.randrange(1, bits + 1)))
        for v in sorted(vals):
            enc.append(f"enc ty={ty} x={v}")
        # truncated / over-long inputs
        for ln in range(0, w + 2):
            misc.append(f"dec ty={ty} hex={bytes(rng.getrandbits(8) for _ in range(ln)).hex()}")
    misc += ["encb ty=bool b=0", "encb ty=bool b=1"]
    for b in [0, 1, 2, 3, 0x80, 0xFF]:
        misc.append(f"dec ty=bool hex={b:02x}")
    misc.append("dec ty=bool hex=")
    strs = [b"", b"a", "héllo".encode(), "日本語テキスト".encode(), "\U0001F600 ok".encode(), b"\x7f", "߿ࠀ￿".encode()]
    for s in strs:
        misc.append(f"encb ty=str hex={s.hex()}")
        misc.append(f"encb ty=vec hex={s.hex()}")
    for ln in [0, 1, 2, 7, 8, 9, 255, 256, 257, 4095, 4096, 4097]:
        v = pattern(ln, rng.choice([0, 1, 2, 5]))
        misc.append(f"encb ty=vec hex={v.hex()}")
        enc_v = ln.to_bytes(8, "little") + v
        misc.append(f"dec ty=vec hex={enc_v.hex()}")
        for cut in {0, 3, 7, 8, len(enc_v) - 1, len(enc_v) // 2}:
            if 0 <= cut < len(enc_v):
                misc.append(f"dec ty=vec hex={enc_v[:cut].hex()}")
        misc.append(f"dec ty=vec hex={(enc_v + b'xyz').hex()}")
        for room in {0, 7, 8, 8 + ln - 1, 8 + ln, 8 + ln + 1}:
            if room >= 0 and ln <= 300:
                misc.append(f"encsmall room={room} hex={v.hex()}")
    bad = [b"\xff", b"\xc0\x80", b"\xe0\x80\x80", b"\xed\xa0\x80", b"\xf4\x90\x80\x80", b"ab\x80", b"\xc3", b"\xf0\x9f\x98"]
    for s in bad + strs:
        misc.append(f"dec ty=str hex={(len(s).to_bytes(8, 'little') + s).hex()}")
    for _ in range(n_random * 4):
        s = bytes(rng.choice([rng.randrange(0x20, 0x7f), rng.randrange(0x80, 0x100)]) for _ in range(rng.randrange(0, 6)))
        misc.append(f"dec ty=str hex={(len(s).to_bytes(8, 'little') + s).hex()}")
    misc.append(f"dec ty=vec hex={(1 << 40).to_bytes(8, 'little').hex()}")
    return enc, misc


def gen_push(rng, n):
    out = []
    PAGE = 4096
    for _ in range(n):
        cap = rng.choice([1, 2, 3, 4, 8, 16, 32]) * PAGE
        pre = rng.choice([0, 0, PAGE, cap - PAGE, cap]) if cap > PAGE else rng.choice([0, 0, cap])
        pre = max(0, min(pre, cap))
        maxe = rng.choice([PAGE, 2 * PAGE, 4 * PAGE, cap, 64 * PAGE])
        comp = rng.choice(["none", "none", "none", "zstd", "lz4"])
        kty = rng.choice(["u64", "u64", "vec", "str"])
        if kty == "u64":
            k, klen = str(rng.getrandbits(64)), 8
        elif kty == "vec":
            kb = bytes(rng.getrandbits(8) for _ in range(rng.choice([0, 1, 5, 40, 300])))
            k, klen = kb.hex(), 8 + len(kb)
        else:
            kb = rng.choice(["", "k", "clé-日本", "x" * 100]).encode()
            k, klen = kb.hex(), 8 + len(kb)
        room = cap - pre
        # sizes around the interesting boundaries: exactly fits / one over, page boundary, max entry
        fit = room - 36 - klen - 8
        cands = [0, 1, 100, PAGE - 36 - klen - 8, PAGE - 36 - klen - 8 + 1, maxe - 36 - klen - 8, maxe - 36 - klen - 8 + 1,
                 fit - 1, fit, fit + 1, fit + 5000, rng.randrange(0, 3 * PAGE)]
        vlen = max(0, rng.choice(cands))
        vlen = min(vlen, 40 * PAGE)
        vpat = rng.choice([0, 1, 2, 3, 7])
        out.append(f"push cap={cap} pre={pre} max={maxe} comp={comp} kty={kty} k={k if k != '' else ''} vlen={vlen} "
                   f"vpat={vpat} hash={rng.getrandbits(64)} seq={rng.getrandbits(rng.choice([8, 40, 64]))}")
    return out


def run_fmt(lines, binary=None):
    with tempfile.TemporaryDirectory(prefix="fmtv") as td:
        sp = os.path.join(td, "s.txt")
        open(sp, "w").write("\n".join(lines) + "\n")
        rc, out = C.sh([binary or FMT, sp], timeout=900)
        if rc != 0:
            raise C.Broken("fmt harness failed", out[-2000:])
        return [l for l in out.split("\n") if l.strip()]


def run_model(lines):
    rc, out = C.sh(f"ulimit -s unlimited 2>/dev/null; {DRIVER}", inp="\n".join(lines) + "\n", timeout=900)
    if rc != 0:
        raise C.Broken("fmt_driver failed", out[-2000:])
    return [l for l in out.split("\n") if l.strip()]


def obs(line):
    return line.partition("|")[2].strip()


def kv(s):
    return dict(t.split("=", 1) for t in s.split() if "=" in t)
