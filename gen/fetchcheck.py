"""Check flow for C06 / C11 (fetch coalescing, explicit insert vs. in-flight fetch)."""
import glob, json, os, random
from . import common as C
from . import fetch as F

ASSUME = [
    "single-threaded tokio runtime run to quiescence after every scripted action: one RawFetch::poll is one atomic "
    "step; the window inside a poll on a multi-threaded runtime (between close.load and the task's own insert) is not exhibited",
    "mea::oneshot channels behave as single-assignment cells; tokio wakes a task only when its pending future resolves",
    "the hybrid cache's disk stage is represented by get_or_fetch_inner's optional fetch (which is how HybridCache drives it)",
]


def gen_scripts(pid, tier, seed):
    rng = random.Random(seed * 1000 + int(pid[1:]))
    thorough = tier == "thorough"
    scripts = []
    L = 5 if thorough else 4
    scripts += F.exhaustive(L, "fifo")
    if thorough:
        for algo in ["lru", "sieve", "s3fifo", "lfu"]:
            scripts += F.exhaustive(4, algo)
    per = 3000 if thorough else 300
    for algo in F.ALGOS:
        for _ in range(per):
            univ = rng.choice([1, 2, 3])
            hd, hm, sh = rng.choice([(1, 1, 1), (1, 1, 2), (1000, 1, 1), (2, 1, 2)])
            scripts.append(F.cfg_line(algo, univ, hd, hm, sh) + "\n" + "\n".join(F.gen_random(rng, rng.choice([6, 12, 25, 40]), univ)) + "\n")
    rule = (f"exhaustive: all action sequences of length <= {L} over one key and the alphabet {F.ALPHA} "
            f"(each followed by a drain that resolves everything); {per} random scripts per memory algorithm over 1..3 keys, "
            "colliding hashers included")
    return scripts, rule


def corpus(pid):
    return [open(p).read() for p in sorted(glob.glob(os.path.join(C.ROOT, "corpus", pid, "*.script")))]


def evaluate(pid, r):
    impl, model, cfgl = r
    return dict(mismatch=F.first_mismatch(impl, model), oracle=F.ORACLES[pid](impl))


def shrink(pid, script, budget=300):
    lines = script.strip().split("\n")
    cfg = lines[0]
    ops, _ = F.redrain(lines[1:])

    def fails(ops_):
        r = F.run_batch([cfg + "\n" + "\n".join(F.redrain(ops_)[1]) + "\n"])[0]
        return F.ORACLES[pid](r[0]) is not None

    runs, changed = 0, True
    while changed and runs < budget:
        changed = False
        i = len(ops) - 1
        while i >= 0 and runs < budget:
            cand = ops[:i] + ops[i + 1:]
            runs += 1
            if cand and fails(cand):
                ops = cand; changed = True
            i -= 1
    return cfg + "\n" + "\n".join(F.redrain(ops)[1]) + "\n"


def run(pid, tier, seed, gate, replay=None):
    C.build_ocaml()
    C.build_harness(["fetchtrace"])
    if replay:
        scripts, rule = [json.load(open(replay))["script"]], "replay"
    else:
        scripts, rule = gen_scripts(pid, tier, seed)
        scripts = corpus(pid) + scripts
    results = F.run_many(scripts)
    evals = [evaluate(pid, r) for r in results]
    nontrivial, flagcount = set(), {}
    for s, r in zip(scripts, results):
        fl = F.classify(r[0])
        for f in fl:
            flagcount[f] = flagcount.get(f, 0) + 1
        if fl & {"insert-during-fetch", "coalesced-waiters", "cancelled", "lookup-none", "req-err", "opt-hit"}:
            nontrivial.add(C.case_hash(s))
    failing = [(i, e) for i, e in enumerate(evals) if e["oracle"] is not None]
    mism = [(i, e) for i, e in enumerate(evals) if e["mismatch"] is not None and e["oracle"] is None]
    violations = []
    if failing:
        i, e = min(failing, key=lambda t: len(scripts[t[0]]))
        small = shrink(pid, scripts[i])
        r = F.run_batch([small])[0]
        o = F.ORACLES[pid](r[0]) or e["oracle"]
        rp = C.write_replay(pid, seed, 0, dict(property=pid, stream="fetchtrace", script=small, impl_obs=r[0],
                                               model_obs=r[1], oracle=dict(failed_at=o[0], what=o[1]), broken=None,
                                               failing_cases=len(failing)))
        violations.append(dict(replay=rp, what=o[1]))
    elif mism:
        i, e = min(mism, key=lambda t: len(scripts[t[0]]))
        k = e["mismatch"]
        rp = C.write_replay(pid, seed, 0, dict(property=pid, stream="fetchtrace", script=scripts[i],
                                               impl_obs=results[i][0], model_obs=results[i][1], oracle=None,
                                               broken=f"correspondence fetchtrace: model and implementation differ at action {k} "
                                                      f"({len(mism)} scripts); the property oracle accepts the implementation on all {len(scripts)} scripts"))
        violations.append(dict(replay=rp, nofail=True,
                               what=f"correspondence broken at action {k}: impl `{results[i][0][k] if k < len(results[i][0]) else '<end>'}` "
                                    f"model `{results[i][1][k] if k < len(results[i][1]) else '<end>'}`"))
    # the same on a multi-threaded runtime: an explicit insert racing with a fetch of the key from another thread (F16)
    race = None
    if pid == "C11" and not replay and not failing:
        from . import conccheck as CC
        C.build_harness(["conc"])
        rrng = random.Random(seed + 11)
        rs = []
        for _ in range(60 if tier == "thorough" else 16):
            # capacity well above the key set: nothing is ever evicted, so a key that an insert has written stays in memory
            # (the rule below - a fetched value is as of the invocation of its fetch closure - is sound only then: with
            # evictions, an insert made between the closure call and the lookup can be evicted again before the lookup)
            lines = [f"cfg algo={rrng.choice(CC.ALGOS)} shards={rrng.choice([1, 2])} cap=64 rounds={600 if tier == 'thorough' else 300} "
                     f"jitter={rrng.randrange(1, 10**6)} reent=0 timeout=60"]
            for t in range(rrng.choice([2, 3])):
                for _ in range(rrng.randrange(3, 8)):
                    lines.append(f"t{t} {rrng.choice(['gof', 'gof', 'ins', 'ins', 'get'])} {rrng.choice([0, 0, 1])}")
            rs.append("\n".join(lines) + "\n")
        rres = C.pmap(lambda sc: CC.one("C11", sc), rs, workers=4)
        rbad = [(sc, r) for sc, r in zip(rs, rres) if r[0]]
        race = dict(concurrent_runs=len(rs), operations=sum(r[2] for r in rres), violations=len(rbad))
        if rbad:
            sc, r = min(rbad, key=lambda t: len(t[0]))
            rp = C.write_replay(pid, seed, "race", dict(property=pid, stream="conc (insert racing with a fetch)", script=sc,
                                                       impl_obs=r[3][:400], oracle=dict(failed_at=0, what=r[0]), broken=None))
            violations.append(dict(replay=rp, what=r[0]))
    if gate.get("failed") and not failing:
        rp = C.write_replay(pid, seed, "gate", dict(property=pid, oracle=None, broken=f"Coq gate for Props/{pid}.v: {gate['failed']}",
                                                   note=f"oracle search over {len(scripts)} scripts found no failing input"))
        violations.append(dict(replay=rp, nofail=True, what=gate["failed"]))
    k = min(len(results) - 1, 20000)
    cov = dict(
        evaluations=len(scripts), distinct_nontrivial=len(nontrivial),
        rule=rule + "; non-trivial = reached coalesced waiters, an insert during a pending fetch, a cancelled task, "
                    "a failed fetch, a disk-stage hit or a lookup-only miss; distinct = SHA-1 of the script",
        samples=[dict(script=scripts[k].strip().split("\n"), impl=results[k][0][:6])] if results else [],
        traces_validated_against_impl=len(scripts) - len(mism) - len(failing),
        input_distribution=dict(situations=flagcount, multi_threaded_race_stream=race), exhaustive=False)
    return cov, violations, ASSUME
